"""C04 - Observables are invariant under gauge transformations.

Operator level: the real builders (and the real in-place refresh path) are executed for a
potential A (link phases theta_e) and for the gauge-transformed A' (theta'_e = theta_e +
chi_j - chi_i, chi arbitrary per site); covariance is decided entry-wise, supercurrent
invariance edge-wise.  Step level (assume-guarantee cut): the real per-site update kernel
`solve_for_psi_squared` is executed on (psi, L psi) and on (g psi, g L psi) and must return
(g psi', same |psi'|^2); together with supercurrent invariance the Poisson right-hand side is
unchanged, so mu, J_n are unchanged (the LU solve is a function of its right-hand side)."""
import numpy as np

from symx import engine, meshes
from symx.engine import Case

from . import common as K

ID = "C04"
ENCODED = [
    "tdgl.finite_volume.operators:build_gradient",
    "tdgl.finite_volume.operators:build_laplacian",
    "tdgl.finite_volume.operators:MeshOperators.set_link_exponents",
    "tdgl.finite_volume.operators:MeshOperators.get_supercurrent",
    "tdgl.solver.solver:TDGLSolver.solve_for_psi_squared",
]
BOUNDS = {
    "quick": dict(meshes=["T2", "F5"], shift_mesh="Z5 (integer coordinates)", steps=1, arithmetic="exact reals (QF_NRA)"),
    "thorough": dict(meshes=["T2", "F5", "F7", "G9", "R8", "device:bar2"], shift_mesh="Z5 (integer coordinates)", steps=1, arithmetic="exact reals (QF_NRA)"),
}
ASSUMPTIONS = [
    "mesh topology concrete; areas, lengths, dual lengths arbitrary positive reals",
    "link phases theta_e and gauge function chi_i are arbitrary reals, represented by unit-circle pairs (phase algebra)",
    "one-step covariance is established compositionally: operator covariance + per-site kernel covariance + supercurrent invariance; the LU solve is a function of its right-hand side",
    "per-site kernel: the covariant Laplacian action is an arbitrary complex number (opaque psi_laplacian)",
]
OUTSIDE = [
    "two runs that both start from psi=1 under shifted A are different initial-value problems in gauge-invariant terms; their agreement is not implied by gauge covariance and not asserted",
    "uniform_Bz_vector_potential re-centring through pint (covered as 'constant shift is a gauge transformation' on the integer-coordinate mesh)",
    "rounding",
]
TV_SAMPLES = {"quick": 2, "thorough": 2}
MERGE = True
ABSTRACT_DIV = True

OPS = "tdgl.finite_volume.operators"


def patch_spec(case):
    return engine.std_patch(OPS, "tdgl.solver.solver")


def cases(tier, seed):
    names = BOUNDS[tier]["meshes"]
    meshes.warm(names, seed)
    out = []
    for n in names:
        out.append(Case(f"ops:{n}", mesh=n, kind="ops", seed=seed, fixed=False))
    out.append(Case("ops-pinned:device:bar2", mesh="device:bar2", kind="ops", seed=seed, fixed=True))
    meshes.warm(["device:bar2"], seed)
    out.append(Case("shift:Z5", kind="shift", seed=seed))
    out.append(Case("kernel:site", kind="kernel", seed=seed))
    return out


def zmesh():
    """5-site mesh with integer coordinates (for the constant-shift case)."""
    from tdgl.finite_volume.mesh import Mesh

    pts = np.array([[0, 0], [2, 0], [2, 2], [0, 2], [1, 1]], float)
    tris = np.array([[0, 1, 4], [1, 2, 4], [2, 3, 4], [3, 0, 4]], dtype=np.int64)
    return Mesh.from_triangulation(pts, tris)


_Z = {}


def body(H, case):
    if case.kind == "kernel":
        return body_kernel(H, case)
    import tdgl.finite_volume.operators as ops
    from tdgl.solver.options import SparseSolver

    if case.kind == "shift":
        import copy

        if "m" not in _Z:
            raise engine.HarnessError("zmesh not prepared")
        mesh = meshes.symbolise(copy.deepcopy(_Z["m"]), H)
    else:
        mesh = meshes.symbolise(meshes.get(case.mesh, case.seed), H)
    em = mesh.edge_mesh
    ns, ne = len(mesh.sites), len(em.edges)
    theta = H.array([H.phase(f"th{e}") for e in range(ne)])
    A1 = K.link_exponents_for(H, mesh, theta)
    if case.kind == "shift":
        # constant shift delta: theta'_e = theta_e + delta . d_e ; chi_i = delta . r_i (integer coordinates)
        dxs, dys = H.phase("deltax"), H.phase("deltay")
        chi = [dxs * float(mesh.sites[i][0]) + dys * float(mesh.sites[i][1]) for i in range(ns)]
        if H.mode == "sym":
            shift = H.array2([[dxs, dys]] * ne)
        else:
            shift = np.array([[dxs, dys]] * ne)
        A2 = A1 + shift
    else:
        chi = [H.phase(f"chi{i}") for i in range(ns)]
        theta2 = H.array([K.at(theta, e) + chi[int(j)] - chi[int(i)] for e, (i, j) in enumerate(em.edges)])
        A2 = K.link_exponents_for(H, mesh, theta2)

    def g(i):
        return H.exp_i(chi[int(i)])

    fixed = None
    if getattr(case, "fixed", False):
        # terminal sites of the real device mesh: the first and last boundary sites
        fixed = np.array(sorted(set(mesh.boundary_indices.tolist()))[:2], dtype=np.int64)

    def build(Alink, refresh_from=None):
        mo = ops.MeshOperators(mesh, SparseSolver.SUPERLU, fixed_sites=fixed if fixed is not None else np.array([], dtype=np.int64), fix_psi=fixed is not None)
        if refresh_from is not None:
            mo.set_link_exponents(refresh_from)  # build path
        mo.set_link_exponents(Alink)  # build or in-place refresh path
        return mo

    for label, mo1, mo2 in (
        ("build", build(A1), build(A2)),
        ("refresh", build(A1, refresh_from=A2), build(A2, refresh_from=A1)),
    ):
        G1, L1, G2, L2 = mo1.psi_gradient, mo1.psi_laplacian, mo2.psi_gradient, mo2.psi_laplacian
        H.prove(f"{label}: gradient patterns equal", K.pattern(G1) == K.pattern(G2))
        H.prove(f"{label}: laplacian patterns equal", K.pattern(L1) == K.pattern(L2))
        for (e, k) in K.pattern(G1):
            i = em.edges[e][0]
            H.prove_eq(f"{label}: G'[{e},{k}] = g_i G g_k^-1", K.entry(G2, e, k), g(i) * K.entry(G1, e, k) * K.conj(g(k)))
        for (i, j) in K.pattern(L1):
            H.prove_eq(f"{label}: L'[{i},{j}] = g_i L g_j^-1", K.entry(L2, i, j), g(i) * K.entry(L1, i, j) * K.conj(g(j)))
        if label == "build":
            psi = H.cplxs("p", ns)
            if H.mode == "sym":
                psi2 = H.array([g(i) * K.at(psi, i) for i in range(ns)])
            else:
                psi2 = np.array([g(i) * psi[i] for i in range(ns)])
            J1 = K.elems(mo1.get_supercurrent(psi))
            J2 = K.elems(mo2.get_supercurrent(psi2))
            for e in range(ne):
                H.prove_eq(f"supercurrent invariant [{e}]", J2[e], J1[e])


class _OpaqueLaplacian:
    """psi_laplacian whose action is an arbitrary complex vector (any covariant Laplacian)."""

    def __init__(self, action):
        self.action = action

    def __matmul__(self, psi):
        return self.action


def body_kernel(H, case):
    from tdgl.solver.solver import TDGLSolver

    psi = H.cplx("psi")
    lap = H.cplx("lap")
    mu = H.real("mu")
    eps = H.real("eps", lo=-1.0, hi=1.0)
    gamma = H.real("gamma", nonneg=True)
    u = H.real("u", pos=True)
    dt = H.real("dt", pos=True)
    chi = H.phase("chi")
    g = H.exp_i(chi)

    def run(p, l):
        arr = H.array([p])
        return TDGLSolver.solve_for_psi_squared(
            psi=arr, abs_sq_psi=H.array([H.abs2(psi)]) if H.mode == "sym" else np.abs(arr) ** 2,
            mu=H.array([mu]), epsilon=H.array([eps]), gamma=gamma, u=u, dt=dt,
            psi_laplacian=_OpaqueLaplacian(H.array([l])),
        )

    H.prove_eq("|g psi|^2 = |psi|^2 (the caller passes |psi|^2 computed from psi)", H.abs2(g * psi), H.abs2(psi))
    r1 = run(psi, lap)
    r2 = run(g * psi, g * lap)
    H.prove("refusal is gauge invariant", (r1 is None) == (r2 is None))
    if r1 is None or r2 is None:
        return
    (p1, x1), (p2, x2) = r1, r2
    H.prove_eq("|psi'|^2 invariant", K.at(x2, 0), K.at(x1, 0), timeout=120)
    H.prove_eq("psi' covariant", K.at(p2, 0), g * K.at(p1, 0), timeout=120)


def _prepare():
    if "m" not in _Z:
        _Z["m"] = zmesh()


_cases_orig = cases


def cases(tier, seed):  # noqa: F811
    _prepare()
    return _cases_orig(tier, seed)
