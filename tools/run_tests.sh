#!/bin/bash
# usage: run_tests.sh <checkout-dir> : runs the baseline test-suite in <checkout-dir> and compares with /root/.vp/BASELINE.json stable_pass
WT=${1:-/repo}
cd "$WT" || exit 2
export MPLBACKEND=Agg
mkdir -p /tmp/wt; J=$(mktemp /tmp/wt/junit.XXXXXX.xml)
/venv/bin/python -m pytest -q -p no:cacheprovider --timeout=900 --continue-on-collection-errors -n ${NPROC:-6} --junitxml=$J > $J.log 2>&1
/venv/bin/python - "$J" <<'PY'
import json, sys, xml.etree.ElementTree as ET
stable = set(json.load(open('/root/.vp/BASELINE.json'))['stable_pass'])
passed = set()
for tc in ET.parse(sys.argv[1]).getroot().iter('testcase'):
    if not any(ch.tag in ('failure', 'error', 'skipped') for ch in tc):
        passed.add(f"{tc.get('classname')}::{tc.get('name')}")
missing = sorted(stable - passed)
print(f"stable={len(stable)} passed={len(passed)} missing={len(missing)}")
for m in missing[:10]: print("  NOT PASSING:", m)
print("BASELINE OK" if not missing else "BASELINE BROKEN")
PY
rm -f $J $J.log
