"""C20 - Fields and potentials computed from currents are linear and correct.

The Python sources of the numba Biot-Savart kernels (scalar and vector form) and of the distance
kernels, the real `biot_savart_2d` (unit handling through the real pint registry), the real
`cdist` and the real `convert_field` are executed on symbolic current densities, areas, source
and evaluation coordinates, sheet height and field values.  Oracle: the SI Biot-Savart sum
mu0/4pi sum_k a_k (K_k x r)/|r|^3 and the direct distance formulas, written here."""
import numpy as np

from symx import core, engine
from symx.engine import Case

from . import common as K

ID = "C20"
ENCODED = [
    "tdgl.em:_biot_savart_2d_z",
    "tdgl.em:_biot_savart_2d_vector",
    "tdgl.em:biot_savart_2d",
    "tdgl.em:convert_field",
    "tdgl.em:current_loop_vector_potential (geometry; elliptic integrals uninterpreted)",
    "tdgl.solution.solution:Solution.field_at_position",
    "tdgl.solution.solution:Solution.vector_potential_at_position",
    "tdgl.distance:cdist",
    "tdgl.distance:euclidean_distance_2d",
    "tdgl.distance:euclidean_distance_3d",
    "tdgl.distance:sqeuclidean_distance_2d",
    "tdgl.distance:sqeuclidean_distance_3d",
]
BOUNDS = {
    "quick": dict(sources=2, evaluation_points=2, unit_systems=[("um", "uA"), ("nm", "mA")]),
    "thorough": dict(sources=3, evaluation_points=2, unit_systems=[("um", "uA"), ("nm", "mA"), ("mm", "nA"), ("um", "mA")]),
}
ASSUMPTIONS = [
    "numba kernels through their Python source (.py_func); evaluation points off the film plane (|z - z0| >= 0.2)",
    "current densities, areas, coordinates, sheet height arbitrary reals in stated ranges",
    "pint carries the symbolic magnitudes; unit strings enumerated",
]
OUTSIDE = [
    "current_loop_vector_potential (elliptic integrals scipy.special.ellipk/ellipe: no SMT theory)",
    "loading the current densities of a Solution from HDF5 (C14); Solution.field_at_position / vector_potential_at_position are executed on an in-memory stand-in for the solution object",
    "compiled numba code (fastmath)",
]
MERGE = True
TV_SAMPLES = {"quick": 2, "thorough": 2}
from scipy.constants import mu_0 as MU0  # the same double the kernels use


def patch_spec(case):
    import tdgl.distance as D
    import tdgl.em as em

    spec = engine.std_patch("tdgl.em", "tdgl.distance", "tdgl.solution.solution")
    spec["tdgl.solution.solution"]["biot_savart_2d"] = None  # set below (the function object of the patched em module is the same)
    del spec["tdgl.solution.solution"]["biot_savart_2d"]
    spec["tdgl.em"].update(_biot_savart_2d_z=em._biot_savart_2d_z.py_func, _biot_savart_2d_vector=em._biot_savart_2d_vector.py_func)
    for nm in ("euclidean_distance_2d", "euclidean_distance_3d", "sqeuclidean_distance_2d", "sqeuclidean_distance_3d"):
        spec["tdgl.distance"][nm] = getattr(D, nm).py_func
    if case.kind == "loop":
        from symx import arr as A_

        spec["tdgl.em"]["np"] = A_.NPFacade(extra=dict(arccos=_arccos, arctan2=_arctan2, sin=_sin, cos=_cos, zeros_like=_zeros_like))
        spec["tdgl.em"]["special"] = _Special()
    return spec


def cases(tier, seed):
    b = BOUNDS[tier]
    out = [Case("kernels", kind="kernels", m=b["sources"], n=b["evaluation_points"], seed=seed)]
    for lu, cu in b["unit_systems"]:
        out.append(Case(f"biot_savart_2d:{lu}:{cu}", kind="units", m=b["sources"], n=b["evaluation_points"], lu=lu, cu=cu, seed=seed))
    for lu, cu in (("um", "uA"), ("um", "mA")) + ((("nm", "uA"),) if tier == "thorough" else ()):
        out.append(Case(f"solution:field_at_position:{lu}:{cu}", kind="sol_field", m=b["sources"], n=b["evaluation_points"], lu=lu, cu=cu, seed=seed))
        out.append(Case(f"solution:vector_potential_at_position:{lu}:{cu}", kind="sol_vecpot", m=b["sources"], n=b["evaluation_points"], lu=lu, cu=cu, seed=seed))
    out.append(Case("current-loop:direction", kind="loop", n=b["evaluation_points"], seed=seed))
    out.append(Case("cdist", kind="cdist", seed=seed))
    out.append(Case("convert_field", kind="convert", seed=seed))
    return out


def body(H, case):
    return globals()["body_" + case.kind](H, case)


def inputs(H, m, n, z0=0.0):
    pos = H.array2([[H.real(f"px{k}", lo=k - 0.3, hi=k + 0.3), H.real(f"py{k}", lo=-0.3, hi=0.3)] for k in range(m)])
    J = H.reals2("J", m, 2, lo=-3.0, hi=3.0)
    areas = H.reals("a", m, lo=0.1, hi=2.0)
    ev = H.array2([[H.real(f"ex{i}", lo=-1.0, hi=2.0), H.real(f"ey{i}", lo=-1.0, hi=1.0), H.real(f"ez{i}", lo=0.2, hi=2.0) if i % 2 == 0 else H.real(f"ez{i}", lo=-2.0, hi=-0.2)] for i in range(n)])
    return pos, J, areas, ev


def reference(H, ev, pos3, J, areas, i, scale=1.0):
    """mu0/4pi sum_k a_k (K_k x r)/|r|^3 with r = r_eval - r_k, K_k = (Jx, Jy, 0)"""
    B = [0.0, 0.0, 0.0]
    for k in range(len(K.elems(areas))):
        dx = K.at(ev, i, 0) - K.at(pos3, k, 0)
        dy = K.at(ev, i, 1) - K.at(pos3, k, 1)
        dz = K.at(ev, i, 2) - K.at(pos3, k, 2)
        r = H.sqrt(dx * dx + dy * dy + dz * dz)
        pref = (MU0 / (4 * np.pi)) * K.at(areas, k) * r ** (-3)
        jx, jy = K.at(J, k, 0), K.at(J, k, 1)
        B[0] = B[0] + pref * (jy * dz)
        B[1] = B[1] + pref * (-jx * dz)
        B[2] = B[2] + pref * (jx * dy - jy * dx)
    return B


def call_kernel(H, name, *args):
    import tdgl.em as em

    f = getattr(em, name)
    if H.mode == "sym":
        return f.py_func(*args) if hasattr(f, "py_func") else f(*args)
    return f(*[np.ascontiguousarray(a, dtype=float) for a in args])


def body_kernels(H, case):
    m, n = case.m, case.n
    pos, J, areas, ev = inputs(H, m, n)
    z0 = H.real("z0", lo=-0.1, hi=0.1)
    pos3 = H.array2([[K.at(pos, k, 0), K.at(pos, k, 1), z0] for k in range(m)])
    Bv = call_kernel(H, "_biot_savart_2d_vector", ev, pos3, J, areas)
    Bz = call_kernel(H, "_biot_savart_2d_z", ev, pos3, J, areas)
    for i in range(n):
        ref = reference(H, ev, pos3, J, areas, i)
        for c in range(3):
            H.prove_eq(f"vector kernel B[{i},{c}] = SI Biot-Savart sum", K.at(Bv, i, c), ref[c], timeout=120, scale=1e-30)
        H.prove_eq(f"scalar kernel Bz[{i}] = z-component of the vector kernel", K.at(Bz, i), K.at(Bv, i, 2))
    # linearity in the currents
    J2 = H.reals2("Jb", m, 2, lo=-3.0, hi=3.0)
    al, be = H.real("alpha", lo=-2.0, hi=2.0), H.real("beta", lo=-2.0, hi=2.0)
    Jc = al * J + be * J2
    B1 = call_kernel(H, "_biot_savart_2d_vector", ev, pos3, J2, areas)
    Bc = call_kernel(H, "_biot_savart_2d_vector", ev, pos3, Jc, areas)
    for i in range(n):
        for c in range(3):
            H.prove_eq(f"linearity B(alpha J1 + beta J2)[{i},{c}]", K.at(Bc, i, c), al * K.at(Bv, i, c) + be * K.at(B1, i, c), timeout=120)


def body_units(H, case):
    from tdgl.em import biot_savart_2d, ureg

    m, n = case.m, case.n
    pos, J, areas, ev = inputs(H, m, n)
    z0 = H.real("z0", lo=-0.1, hi=0.1)
    to_m = float(ureg(case.lu).to("m").magnitude)
    to_Am = float(ureg(f"{case.cu} / {case.lu}").to("A / m").magnitude)
    snap = snapshot(pos=pos, J=J, areas=areas, ev=ev)
    for vector in (True, False):
        B = biot_savart_2d(ev[:, 0], ev[:, 1], ev[:, 2], positions=pos, current_densities=J, z0=z0, areas=areas,
                           length_units=case.lu, current_units=case.cu, vector=vector)
        H.prove(f"vector={vector}: result carries units of tesla", str(B.units) == "tesla")
        Bm = B.magnitude
        pos3 = H.array2([[K.at(pos, k, 0) * to_m, K.at(pos, k, 1) * to_m, z0 * to_m] for k in range(m)])
        ev_m = H.array2([[K.at(ev, i, c) * to_m for c in range(3)] for i in range(n)])
        J_si = H.array2([[K.at(J, k, c) * to_Am for c in range(2)] for k in range(m)])
        a_si = H.array([K.at(areas, k) * to_m**2 for k in range(m)])
        for i in range(n):
            ref = reference(H, ev_m, pos3, J_si, a_si, i)
            if vector:
                for c in range(3):
                    H.prove_eq(f"biot_savart_2d vector [{i},{c}] = SI sum (z0 and all coordinates in metres)", K.at(Bm, i, c), ref[c], timeout=120, scale=1e-30)
            else:
                H.prove_eq(f"biot_savart_2d scalar [{i}] = SI sum", K.at(Bm, i), ref[2], timeout=120, scale=1e-30)
        unchanged(H, f"vector={vector}", snap, pos=pos, J=J, areas=areas, ev=ev)
    # input forms: a plane of constant height (scalar z) over coordinates the user typed as integers - the same
    # physical points as the float coordinates, so the same field
    zh = H.real("z_plane", lo=0.3, hi=1.7)
    xi_, yi_ = np.array([2, -1][:n]), np.array([1, 3][:n])
    for form, (xa, ya) in {"integer arrays": (xi_, yi_), "lists of Python ints": ([int(v) for v in xi_], [int(v) for v in yi_])}.items():
        B = biot_savart_2d(xa, ya, zh, positions=pos, current_densities=J, z0=z0, areas=areas, length_units=case.lu, current_units=case.cu, vector=True)
        Bm = B.magnitude
        pos3 = H.array2([[K.at(pos, k, 0) * to_m, K.at(pos, k, 1) * to_m, z0 * to_m] for k in range(m)])
        ev_m = H.array2([[float(xi_[i]) * to_m, float(yi_[i]) * to_m, zh * to_m] for i in range(len(xi_))])
        J_si = H.array2([[K.at(J, k, c) * to_Am for c in range(2)] for k in range(m)])
        a_si = H.array([K.at(areas, k) * to_m**2 for k in range(m)])
        for i in range(len(xi_)):
            ref = reference(H, ev_m, pos3, J_si, a_si, i)
            for c in range(3):
                H.prove_eq(f"plane of constant height over {form}: field [{i},{c}] = SI sum at the requested height", K.at(Bm, i, c), ref[c], timeout=120, scale=1e-30)


def snapshot(**arrays):
    return {k: list(K.elems(v)) for k, v in arrays.items()}


def unchanged(H, tag, snap, **arrays):
    """the caller's arrays are not modified by the call (a second evaluation sees the same currents)"""
    for k, v in arrays.items():
        now = list(K.elems(v))
        same = len(now) == len(snap[k])
        if same:
            for a, b in zip(now, snap[k]):
                if a is b:
                    continue
                if H.mode == "sym" and hasattr(a, "re") and hasattr(b, "re"):
                    same = same and str(a.re) == str(b.re) and str(a.im) == str(b.im)
                else:
                    same = same and bool(a == b)
        H.prove(f"{tag}: the caller's array '{k}' is left unmodified", same)


class _FakeSolution:
    """the attributes Solution.field_at_position / vector_potential_at_position read"""


def fake_solution(H, case, z0):
    from types import SimpleNamespace

    from tdgl.em import ureg

    m = case.m
    pos, Js, areas, ev = inputs(H, m, case.n)
    Jn = H.reals2("Jn", m, 2, lo=-3.0, hi=3.0)
    xi = 0.5
    sol = _FakeSolution()
    mesh = SimpleNamespace(areas=areas / xi**2)
    film = SimpleNamespace(contains_points=lambda p: np.zeros(len(p), dtype=bool))
    sol.device = SimpleNamespace(ureg=ureg, points=pos, mesh=mesh, coherence_length=xi * ureg(case.lu), length_units=case.lu,
                                 layer=SimpleNamespace(z0=z0), film=film)
    sol.field_units, sol.current_units = "mT", case.cu
    sol.supercurrent_density = Js * ureg(f"{case.cu} / {case.lu}")
    sol.normal_current_density = Jn * ureg(f"{case.cu} / {case.lu}")
    return sol, pos, Js, Jn, areas, ev


def body_sol_field(H, case):
    from tdgl.solution.solution import Solution

    z0 = H.real("z0", lo=-0.1, hi=0.1)
    sol, pos, Js, Jn, areas, ev = fake_solution(H, case, z0)
    n, m = case.n, case.m
    snap = snapshot(Js=Js, Jn=Jn, pos=pos, areas=areas, ev=ev)
    parts = Solution.field_at_position(sol, ev, vector=True, units="mT", with_units=False, return_sum=False)
    unchanged(H, "after the first evaluation", snap, Js=sol.supercurrent_density.magnitude, Jn=sol.normal_current_density.magnitude, pos=pos, areas=areas, ev=ev)
    total = Solution.field_at_position(sol, ev, vector=True, units="mT", with_units=False, return_sum=True)
    from tdgl.em import ureg

    to_m, t_to_mT = float(ureg(case.lu).to("m").magnitude), float(ureg("T").to("mT").magnitude)
    to_Am = float(ureg(f"{case.cu} / {case.lu}").to("A / m").magnitude)
    pos3 = H.array2([[K.at(pos, k, 0) * to_m, K.at(pos, k, 1) * to_m, z0 * to_m] for k in range(m)])
    ev_m = H.array2([[K.at(ev, i, c) * to_m for c in range(3)] for i in range(n)])
    a_si = H.array([K.at(areas, k) * to_m**2 for k in range(m)])
    for nm, J, part in (("supercurrent", Js, parts.supercurrent), ("normal current", Jn, parts.normal_current)):
        J_si = H.array2([[K.at(J, k, c) * to_Am for c in range(2)] for k in range(m)])
        for i in range(n):
            ref = reference(H, ev_m, pos3, J_si, a_si, i)
            for c in range(3):
                H.prove_eq(f"field of the {nm} [{i},{c}] = SI Biot-Savart sum in mT", K.at(part, i, c), t_to_mT * ref[c], timeout=120, scale=1e-30)
    for i in range(n):
        for c in range(3):
            H.prove_eq(f"total field [{i},{c}] = supercurrent part + normal-current part", K.at(total, i, c), K.at(parts.supercurrent, i, c) + K.at(parts.normal_current, i, c), scale=1e-30)


def body_sol_vecpot(H, case):
    from tdgl.em import ureg
    from tdgl.solution.solution import Solution

    z0 = H.real("z0", lo=-0.1, hi=0.1)
    sol, pos, Js, Jn, areas, ev = fake_solution(H, case, z0)
    n, m = case.n, case.m
    Aapp = H.reals2("Aapp", n, 3, lo=-2.0, hi=2.0)

    class Applied:
        time_dependent = False

        def __call__(self, x, y, z, **kw):
            return Aapp

    sol.applied_vector_potential = Applied()
    units = f"mT * {case.lu}"
    snap = snapshot(Js=Js, Jn=Jn, pos=pos, areas=areas, ev=ev)
    parts = Solution.vector_potential_at_position(sol, ev, units=units, with_units=False, return_sum=False)
    unchanged(H, "after the first evaluation", snap, Js=sol.supercurrent_density.magnitude, Jn=sol.normal_current_density.magnitude, pos=pos, areas=areas, ev=ev)
    total = Solution.vector_potential_at_position(sol, ev, units=units, with_units=False, return_sum=True)
    # the same two exact factors pint applies: 1/(4 pi) on the magnitude, then the unit conversion of mu_0 uA
    c1, c2 = 1 / (4 * float(np.pi)), float((1.0 * ureg("mu_0") * ureg(case.cu)).to(units).magnitude)
    for key, J in (("supercurrent_density", Js), ("normal_current_density", Jn)):
        for i in range(n):
            for c in range(2):
                ref = 0.0
                for k in range(m):
                    dx = K.at(ev, i, 0) - K.at(pos, k, 0)
                    dy = K.at(ev, i, 1) - K.at(pos, k, 1)
                    dz = K.at(ev, i, 2) - z0
                    ref = ref + K.at(J, k, c) * K.at(areas, k) / H.sqrt(dx * dx + dy * dy + dz * dz)
                got = K.at(parts[key], i, c)
                H.prove_eq(f"vector potential of {key} [{i},{c}] = mu0/4pi sum K a / |r|", got, (ref * c1) * c2, timeout=120, scale=1e-30)
            H.prove_eq(f"vector potential of {key} [{i},z] = 0", K.at(parts[key], i, 2), 0.0)
    for i in range(n):
        for c in range(3):
            H.prove_eq(f"applied part [{i},{c}] is the applied vector potential", K.at(parts["applied"], i, c), K.at(Aapp, i, c), scale=1e-30)
            H.prove_eq(f"total vector potential [{i},{c}] = applied + supercurrent + normal-current parts", K.at(total, i, c),
                       K.at(parts["applied"], i, c) + K.at(parts["supercurrent_density"], i, c) + K.at(parts["normal_current_density"], i, c), scale=1e-30)


# ---- angles and elliptic integrals for the current-loop potential (symbolic runs) --------------------------------
class _Angles:
    """an array of angles known only through (cos, sin); supports `+ pi/2` (a quarter turn)"""

    def __init__(self, c, s_):
        self.c, self.s = c, s_
        self.shape = np.shape(c.data)

    def __add__(self, k):
        if abs(float(k) - float(np.pi) / 2) > 1e-15:
            raise core.Unsupported("angle shifted by something other than pi/2")
        return _Angles(-self.s, self.c)


def _arccos(c):
    from symx import arr as A_

    c = A_.asarray(c)
    return _Angles(c, A_.sqrt(1 - c * c))  # polar angle in [0, pi]: its sine is non-negative


def _arctan2(y, x):
    from symx import arr as A_

    y, x = A_.asarray(y), A_.asarray(x)
    rho = A_.sqrt(x * x + y * y)
    return _Angles(x / rho, y / rho)


def _sin(a):
    if not isinstance(a, _Angles):
        raise core.Unsupported("sin of a symbolic number")
    return a.s


def _cos(a):
    if not isinstance(a, _Angles):
        raise core.Unsupported("cos of a symbolic number")
    return a.c


def _zeros_like(a, **k):
    from symx import arr as A_

    return A_.zeros(a.shape, float) if isinstance(a, _Angles) else A_.zeros_like(a, **k)


class _Special:
    """scipy.special.ellipk / ellipe: uninterpreted functions of the parameter m (no SMT theory for them)"""

    @staticmethod
    def ellipk(m):
        from symx.arr import SA

        return SA(np.array([core.opaque_fn("ellipk", v) for v in m.data.ravel()] + [None], dtype=object)[:-1])

    @staticmethod
    def ellipe(m):
        from symx.arr import SA

        return SA(np.array([core.opaque_fn("ellipe", v) for v in m.data.ravel()] + [None], dtype=object)[:-1])


def body_loop(H, case):
    """closed-form vector potential of a current loop: the elliptic-integral magnitude is uninterpreted, but the
    geometry around it is decided: A_z = 0, A is azimuthal about the *loop axis* (perpendicular to the in-plane
    radius vector from the loop centre), and the result only depends on positions relative to the loop centre"""
    from tdgl.em import current_loop_vector_potential

    n = case.n
    c = [H.real("cx", lo=-3.0, hi=3.0), H.real("cy", lo=-3.0, hi=3.0), H.real("cz", lo=-1.0, hi=1.0)]
    # evaluation points off the loop axis and off the loop plane
    P = H.array2([[c[0] + H.real(f"rx{i}", lo=0.3, hi=2.0) * (1 if i % 2 == 0 else -1), c[1] + H.real(f"ry{i}", lo=0.3, hi=2.0), c[2] + H.real(f"rz{i}", lo=0.3, hi=2.0)] for i in range(n)])
    a, cur = H.real("radius", lo=0.5, hi=2.0), H.real("current", lo=0.5, hi=5.0)
    d = [H.real("shift_x", lo=-5.0, hi=5.0), H.real("shift_y", lo=-5.0, hi=5.0), H.real("shift_z", lo=-5.0, hi=5.0)]
    centre = H.array(c) if H.mode == "sym" else np.array(c)
    A = current_loop_vector_potential(P, loop_center=centre, loop_radius=a, current=cur).magnitude
    P2 = H.array2([[K.at(P, i, k) + d[k] for k in range(3)] for i in range(n)])
    centre2 = H.array([c[k] + d[k] for k in range(3)]) if H.mode == "sym" else np.array([c[k] + d[k] for k in range(3)])
    A2 = current_loop_vector_potential(P2, loop_center=centre2, loop_radius=a, current=cur).magnitude
    for i in range(n):
        ax, ay, az = K.at(A, i, 0), K.at(A, i, 1), K.at(A, i, 2)
        rx, ry = K.at(P, i, 0) - c[0], K.at(P, i, 1) - c[1]
        H.prove_eq(f"point {i}: A_z = 0", az, 0.0, scale=1e-30)
        if H.mode == "sym":
            H.prove_eq(f"point {i}: A is perpendicular to the in-plane radius vector from the loop centre (azimuthal about the loop axis)", ax * rx + ay * ry, 0.0, timeout=60)
        else:
            H.prove(f"point {i}: A is perpendicular to the in-plane radius vector from the loop centre (azimuthal about the loop axis)",
                    abs(ax * rx + ay * ry) <= 1e-9 * (abs(ax) + abs(ay)) * (abs(rx) + abs(ry)))
        for k, nm in enumerate("xyz"):
            if H.mode == "sym":
                H.prove_eq(f"point {i}: A_{nm} is unchanged when loop and point are shifted together", K.at(A2, i, k), K.at(A, i, k), timeout=60)
            else:
                H.prove(f"point {i}: A_{nm} is unchanged when loop and point are shifted together", abs(K.at(A2, i, k) - K.at(A, i, k)) <= 1e-7 * (abs(ax) + abs(ay)) + 1e-300)


def body_cdist(H, case):
    from tdgl.distance import cdist

    for dim in (2, 3):
        XA = H.reals2(f"A{dim}_", 2, dim, lo=-2.0, hi=2.0)
        XB = H.reals2(f"B{dim}_", 2, dim, lo=-2.0, hi=2.0)
        for metric in ("euclidean", "sqeuclidean"):
            out = cdist(XA if H.mode == "sym" else np.ascontiguousarray(XA), XB if H.mode == "sym" else np.ascontiguousarray(XB), metric=metric)
            for i in range(2):
                for j in range(2):
                    d2 = K.total((K.at(XA, i, c) - K.at(XB, j, c)) ** 2 for c in range(dim))
                    H.prove_eq(f"cdist {metric} {dim}d [{i},{j}]", K.at(out, i, j), d2 if metric == "sqeuclidean" else H.sqrt(d2))


def body_convert(H, case):
    from tdgl.em import convert_field, ureg

    v = H.real("v", lo=-10.0, hi=10.0)
    pairs = [("mT", "A/m"), ("uT", "mA/um"), ("tesla", "uA/um")]
    for bu, hu in pairs:
        h = convert_field(v, hu, old_units=bu, ureg=ureg, with_units=False)
        b = convert_field(h, bu, old_units=hu, ureg=ureg, with_units=False)
        if H.mode == "sym":
            H.prove(f"B->H->B round trip ({bu}, {hu}) within 1e-12 relative", abs(b - v) <= 1e-12 * abs(v))
        else:
            H.prove(f"B->H->B round trip ({bu}, {hu}) within 1e-12 relative", abs(b - v) <= 1e-12 * abs(v))
        h2 = convert_field(convert_field(v, bu, old_units=hu, ureg=ureg, with_units=False), hu, old_units=bu, ureg=ureg, with_units=False)
        H.prove(f"H->B->H round trip ({hu}, {bu}) within 1e-12 relative", abs(h2 - v) <= 1e-12 * abs(v))
    # B = mu0 H
    mu0 = float(ureg("mu0").to("T m / A").magnitude)
    b1 = convert_field(v, "tesla", old_units="A/m", ureg=ureg, with_units=False)
    H.prove("B = mu0 * H in SI", abs(b1 - mu0 * v) <= 1e-12 * abs(mu0 * v))
    same = convert_field(v, "uT", old_units="mT", ureg=ureg, with_units=False)
    H.prove("same-dimension conversion mT -> uT is a factor 1000", abs(same - 1000 * v) <= 1e-9 * abs(1000 * v))
