"""C19 - Ill-posed problems are rejected before anything is written.

The real `SolverOptions.validate`, `validate_terminal_currents`, the constructor checks of
`TDGLSolver.__init__` and `TDGLSolver.solve` up to the creation of the output are executed with
symbolic option values, currents, epsilon values and random draws on an in-memory file system;
on every rejecting path the number of file-system creations must be 0, and rejection must
happen exactly for the documented classes of ill-posed input."""
import numpy as np
import z3

from symx import core, engine, fakeh5, meshes
from symx.core import Sc, SymBool
from symx.engine import Case

from . import common as K
from . import solver_setup as S
from .C01 import Fl

ID = "C19"
ENCODED = [
    "tdgl.solver.options:SolverOptions.validate",
    "tdgl.solver.solver:validate_terminal_currents",
    "tdgl.solver.solver:TDGLSolver.__init__",
    "tdgl.solver.solver:TDGLSolver.solve",
    "tdgl.device.polygon:Polygon.points (setter)",
    "tdgl.device.polygon:Polygon.is_valid",
    "tdgl.device.polygon:Polygon._join_via",
    "tdgl.device.device:Device.__init__",
    "tdgl.solution.solution:Solution.__init__",
    "tdgl.device.device:Device.__eq__",
]
BOUNDS = {
    "quick": dict(terminals=[2, 3], breakpoints=1, defect="relative imbalance >= 1e-6"),
    "thorough": dict(terminals=[2, 3, 4], breakpoints=2, defect="relative imbalance >= 1e-6"),
}
ASSUMPTIONS = [
    "option values, currents, epsilon values are arbitrary reals in stated ranges; the RNG of the current validation returns arbitrary values in [0,1)",
    "file system / HDF5 replaced by the in-memory model; a rejected problem must create nothing in it",
    "unbalanced = |sum I| >= 1e-6 * sum |I| and sum |I| > 0",
    "floating-point acceptance/rejection of constant currents under the standard rounding-error model (relative error 2^-53 per operation)",
]
OUTSIDE = ["GEOS' own validity / emptiness / disjointness verdicts (the harness declares them to the vertex-level model; every concrete replay asks the real library); devices whose defect only shows at meshing time (holes outside the film, overlapping holes)", "wrong-shape potentials beyond a shape flag", "gpu / umfpack / pardiso option branches (imports)"]
TV_SAMPLES = {"quick": 2, "thorough": 2}


DEFECTS = ["well-formed", "bowtie-polygon", "unnamed-film", "unnamed-hole", "unnamed-terminal", "duplicate-terminal-names", "duplicate-hole-names",
           "probe-outside-film", "probe-in-hole", "probe-shape", "union-of-disjoint", "intersection-of-disjoint", "open-ring-of-two-points"]


def patch_spec(case):
    if case.kind == "seedhist":
        from . import C11

        return C11.patch_spec(case)
    if case.kind == "devdef":
        from . import C18

        case.params["_fs"] = None
        return C18.patch_spec(case)
    fs = fakeh5.FakeFS()
    fs.dirs.add("/work")
    case.params["_fs"] = fs
    spec = S.patch_spec(extra_modules=["tdgl.solver.options", "tdgl.solution.solution"])
    h5 = fakeh5.FakeH5py(fs)
    fos = fakeh5.FakeOs(fs)
    spec["tdgl.solver.runner"].update(h5py=h5, tempfile=fakeh5.FakeTempfile(fs), os=fos, tqdm=fakeh5.FakeTqdm, datetime=fakeh5.FakeDatetime, Path=fakeh5.make_path_class(fs))
    spec["tdgl.solver.solver"].update(datetime=fakeh5.FakeDatetime, os=fos)
    return spec


def cases(tier, seed):
    b = BOUNDS[tier]
    for d in ("bar0", "bar2", "tee3", "cross4"):
        meshes.get_device(d, seed)
    out = [Case("options:decision-table", kind="options", seed=seed)]
    for n, d in ((2, "bar2"), (3, "tee3"), (4, "cross4")):
        if n in b["terminals"]:
            out.append(Case(f"unbalanced-constant:{d}", kind="unbalanced", dev=d, seed=seed))
            if n <= 3:  # (three roundings in the error model for 4 terminals are not decided by nlsat within the time-out)
                out.append(Case(f"unbalanced-constant-fp:n={n}", kind="unbalanced_fp", n=n, seed=seed))
    out.append(Case("epsilon>1:bar0", kind="epsilon", seed=seed))
    out.append(Case("vector-potential-shape:bar0", kind="shape", seed=seed))
    out.append(Case("seed-from-other-device:bar0", kind="seed", seed=seed))
    for ch in ("london_lambda", "gamma", "thickness"):
        out.append(Case(f"seed-from-device-changed-in-place:{ch}", kind="seedhist", change=ch, seed=seed))
    out.append(Case("terminal-touches-no-boundary", kind="terminal", seed=seed))
    out.append(Case("unbalanced-time-dependent:bar2", kind="timedep", dev="bar2", seed=seed))
    for d in DEFECTS:
        out.append(Case(f"device-definition:{d}", kind="devdef", defect=d, seed=seed))
    return out


def no_output(H, fs, tag):
    if H.mode == "sym":
        H.prove(f"{tag}: nothing was created on the file system", len(fs.creations()) == 0)


def body(H, case):
    fs = case.params.get("_fs")
    if case.kind == "devdef":
        return body_devdef(H, case)
    if H.mode == "sym":
        fs.files.clear(); fs.dirs.clear(); fs.dirs.add("/work"); fs.open_handles.clear(); fs.log.clear()
    return globals()["body_" + case.kind](H, case, fs)


def body_options(H, case, fs):
    from tdgl.solver.options import SolverOptions, SolverOptionsError

    dt_init = H.real("dt_init", lo=-1.0, hi=2.0)
    dt_max = H.real("dt_max", lo=-1.0, hi=2.0)
    mult = H.real("mult", lo=-1.0, hi=2.0)
    drag = H.real("drag", lo=-1.0, hi=2.0)
    alpha = H.real("alpha", lo=-1.0, hi=2.0)
    tol = H.real("tol", lo=-1.0, hi=2.0)
    tp_kind = H.choice("terminal_psi", ["none", "real", "complex"])
    if tp_kind == "none":
        tp = None
    elif tp_kind == "real":
        tp = H.real("tp", lo=-2.0, hi=2.0)
    else:
        tp = H.cplx("tpc", lo=-2.0, hi=2.0)
    opts = SolverOptions(solve_time=1.0, dt_init=dt_init, dt_max=dt_max, adaptive_time_step_multiplier=mult, screening_step_drag=drag,
                         screening_step_size=alpha, screening_tolerance=tol, terminal_psi=tp, sparse_solver="superlu")
    import dataclasses

    before = dataclasses.asdict(opts)
    adaptive_cfg = H.choice("adaptive", [True, False])
    opts.adaptive = adaptive_cfg
    before["adaptive"] = adaptive_cfg
    try:
        opts.validate()
        raised = False
    except SolverOptionsError:
        raised = True
    if not raised:
        after = dataclasses.asdict(opts)
        for key, val in before.items():
            if key == "sparse_solver":
                continue
            a, b = after[key], val
            if isinstance(a, Sc) and isinstance(b, Sc):
                same = str(a.re) == str(b.re) and str(a.im) == str(b.im)
            elif isinstance(a, Sc) or isinstance(b, Sc):
                same = False
            else:
                same = (a is b) or (type(a) == type(b) and a == b)
            H.prove(f"validate() leaves option {key} as configured", bool(same))
    # ---- oracle: the documented constraint set ---------------------------------------------------
    def land(*xs):
        out = True
        for x in xs:
            out = (out & x) if not isinstance(out, bool) else (x if out else False)
        return out

    if H.mode == "sym":
        conds = [dt_init <= dt_max, (mult > 0) & (mult < 1), (drag > 0) & (drag <= 1), alpha > 0, tol > 0]
        if tp is not None:
            conds.append(H.abs2(tp) <= 1)
        valid = conds[0]
        for c in conds[1:]:
            valid = valid & c
        H.prove("validate() raises exactly when a documented constraint is violated", (~valid) if raised else valid)
    else:
        valid = (dt_init <= dt_max) and (0 < mult < 1) and (0 < drag <= 1) and alpha > 0 and tol > 0 and (tp is None or abs(tp) <= 1)
        H.prove("validate() raises exactly when a documented constraint is violated", raised == (not valid))
    if not raised:
        from tdgl.solver.options import SparseSolver

        H.prove("a string sparse_solver is normalised to the enum", opts.sparse_solver is SparseSolver.SUPERLU)


def _unbalanced_currents(H, names):
    cur = [H.real(f"I_{nm}", lo=-10.0, hi=10.0) for nm in names]
    tot = K.total(cur)
    scale = K.total(abs(c) for c in cur)
    H.assume(scale > 0)
    H.assume(abs(tot) >= 1e-6 * scale)
    return dict(zip(names, cur))


def body_unbalanced(H, case, fs):
    dev = S.symbolic_device(H, case.dev, case.seed, symbolic_mesh=False)
    names = [t.name for t in dev.terminals]
    currents = _unbalanced_currents(H, names)
    opts = S.make_options(output_file="/work/out.h5")
    try:
        S.make_solver(H, dev, opts, currents=currents)
        rejected = False
    except ValueError as e:
        rejected = "sum of all terminal currents" in str(e)
    H.prove("unbalanced constant terminal currents are rejected by the constructor", rejected)
    no_output(H, fs, "unbalanced currents")


def body_unbalanced_fp(H, case, fs):
    from types import SimpleNamespace

    from tdgl.solver.solver import validate_terminal_currents

    n = case.n
    names = [f"t{k}" for k in range(n)]
    J = H.real("J_scale", lo=1e-3, hi=1e3)
    currents = _unbalanced_currents(H, names)
    if H.mode == "sym":
        Fl.n = 0
        scaled = {nm: Fl(J) * Fl(c) for nm, c in currents.items()}
    else:
        scaled = {nm: J * c for nm, c in currents.items()}
    try:
        validate_terminal_currents(scaled, [SimpleNamespace(name=nm) for nm in names], SimpleNamespace(solve_time=1.0))
        rejected = False
    except ValueError:
        rejected = True
    H.prove(f"unbalanced currents on {n} terminals are rejected in floating point", rejected)


def body_epsilon(H, case, fs):
    dev = S.symbolic_device(H, "bar0", case.seed, symbolic_mesh=False)
    ns = len(dev.mesh.sites)
    eps = H.reals("eps", ns, lo=-1.0, hi=3.0)
    opts = S.make_options(output_file="/work/out.h5")
    try:
        S.make_solver(H, dev, opts, epsilon=S.site_function(dev, eps))
        rejected = False
    except ValueError as e:
        rejected = "epsilon must be <= 1" in str(e)
    if H.mode == "sym":
        over = eps.data[0] > 1
        for i in range(1, ns):
            over = over | (eps.data[i] > 1)
        H.prove("rejected exactly when epsilon > 1 somewhere", over if rejected else ~over)
    else:
        H.prove("rejected exactly when epsilon > 1 somewhere", rejected == bool((np.asarray(eps) > 1).any()))
    if rejected:
        no_output(H, fs, "epsilon > 1")


def body_shape(H, case, fs):
    dev = S.symbolic_device(H, "bar0", case.seed, symbolic_mesh=False)
    ne = len(dev.mesh.edge_mesh.edges)
    rows, cols = H.choice("shape", [(ne, 3), (ne, 2), (ne - 1, 3), (1, 3), (ne, 1), (ne - 1, 2), (ne + 1, 2)])
    A = H.reals2("A", rows, cols, lo=-1.0, hi=1.0)
    opts = S.make_options(output_file="/work/out.h5")
    try:
        S.make_solver(H, dev, opts, A=lambda x, y, z: A)
        rejected = False
    except ValueError as e:
        rejected = "Unexpected shape for vector_potential" in str(e)
    ok_shape = rows == ne and cols in (2, 3)
    H.prove(f"vector potential of shape ({rows}, {cols}) for {ne} edges: rejected iff it is not ({ne}, 2) or ({ne}, 3)", rejected == (not ok_shape))
    if rejected:
        no_output(H, fs, "wrong shape")


def body_seed(H, case, fs):
    from types import SimpleNamespace

    dev = S.symbolic_device(H, "bar0", case.seed, symbolic_mesh=False)
    other = meshes.get_device("bar2", case.seed)
    opts = S.make_options(output_file="/work/out.h5")
    solver = S.make_solver(H, dev, opts)
    solver.seed_solution = SimpleNamespace(device=other, tdgl_data=None)
    try:
        solver.solve()
        rejected = False
    except ValueError as e:
        rejected = "seed_solution.device must be equal" in str(e)
    H.prove("a seed solution from a different device is rejected", rejected)
    no_output(H, fs, "foreign seed")


def body_seedhist(H, case, fs):
    """A seed solution belongs to the device *as it was* when the seed was computed: solve, change the device in
    place, solve again with the first solution as seed - the second problem must be rejected, nothing written."""
    import os
    import shutil
    import tempfile

    sym = H.mode == "sym"
    if sym:
        fs.files.clear(); fs.dirs.clear(); fs.dirs.add("/work"); fs.open_handles.clear(); fs.log.clear()
        work = "/work"
    else:
        work = tempfile.mkdtemp(prefix="c19-")
    try:
        dev = S.symbolic_device(H, "bar0", case.seed, symbolic_mesh=False)
        opts = S.make_options(solve_time=0.5, dt_init=1.0, dt_max=1.0, adaptive=False, output_file=work + "/first.h5")
        solver = S.make_solver(H, dev, opts, validate=False)

        def update(state, running_state, dt, *, psi, mu, supercurrent, normal_current, induced_vector_potential, **kw):
            running_state.append("dt", opts.dt_init)
            return (opts.dt_init, psi * 0.5, mu + 1.0, supercurrent + 0.25, normal_current - 0.25, induced_vector_potential)

        solver.update = update
        first = solver.solve()
        H.prove("the first problem is solved", first is not None)
        if first is None:
            return
        factor = H.real("relative change", lo=1e-6, hi=1.0)
        old = getattr(dev.layer, case.change)
        setattr(dev.layer, case.change, old * (1 + factor))  # the user's device object, changed in place
        n_before = len(fs.creations()) if sym else len(os.listdir(work))
        opts2 = S.make_options(solve_time=0.5, dt_init=1.0, dt_max=1.0, adaptive=False, output_file=work + "/second.h5")
        solver2 = S.make_solver(H, dev, opts2, validate=False)
        solver2.seed_solution = first
        solver2.update = update
        try:
            solver2.solve()
            rejected = False
        except ValueError as e:
            rejected = "seed_solution.device must be equal" in str(e)
        H.prove(f"a seed computed before the device's {case.change} was changed in place is rejected", rejected)
        n_after = len(fs.creations()) if sym else len(os.listdir(work))
        H.prove("the rejected second problem created nothing", n_after == n_before)
    finally:
        if not sym:
            shutil.rmtree(work, ignore_errors=True)


def body_terminal(H, case, fs):
    import tdgl
    from tdgl.geometry import box

    if "dev" not in _CACHE:
        raise engine.HarnessError("device not prepared")
    import copy

    dev = copy.deepcopy(_CACHE["dev"])
    opts = S.make_options(output_file="/work/out.h5")
    try:
        S.make_solver(H, dev, opts, currents={"inner": 0.0})
        rejected = False
    except ValueError as e:
        rejected = "does not contain any points" in str(e)
    H.prove("a terminal that touches no boundary is rejected", rejected)
    no_output(H, fs, "empty terminal")


def body_devdef(H, case):
    """Invalid polygons and device definitions: the Python around shapely (vertex setter, set operations,
    `Device.__init__`) must refuse every member of the enumerated classes with a ValueError and accept
    the well-formed device; vertices and probe positions are symbolic, GEOS' verdicts are declared."""
    import tdgl
    from symx import fakegeo

    from .C18 import _box, cell_facts

    sym = H.mode == "sym"
    if sym:
        fakegeo.reset()
    defect = case.defect

    def refused(f):
        try:
            f()
            return False
        except ValueError:
            return True

    layer = tdgl.Layer(coherence_length=1.0, london_lambda=2.0, thickness=0.1)
    if defect == "bowtie-polygon":
        j = lambda nm, v: H.real(f"bt_{nm}", lo=v - 0.1, hi=v + 0.1)
        pts = H.array2([[j("x0", 0.0), j("y0", 0.0)], [j("x1", 2.0), j("y1", 1.0)], [j("x2", 2.0), j("y2", 0.0)], [j("x3", 0.0), j("y3", 1.0)]])
        if sym:
            fakegeo.mark_invalid(pts)
        H.prove("a self-intersecting vertex list is refused by Polygon", refused(lambda: tdgl.Polygon("film", points=pts)))
        good = _box(H, "good", 0.0, 0.0, 4.0, 4.0)

        def assign():
            good.points = pts

        snap = [(K.at(good.points, i, 0), K.at(good.points, i, 1)) for i in range(5)]
        H.prove("assigning a self-intersecting vertex list to an existing polygon is refused", refused(assign))
        now = [(K.at(good.points, i, 0), K.at(good.points, i, 1)) for i in range(np.shape(good.points.data if hasattr(good.points, "data") and not isinstance(good.points, np.ndarray) else good.points)[0])]
        same = len(now) == len(snap) and all((str(a[0]) == str(b[0]) and str(a[1]) == str(b[1])) if sym else (a == b) for a, b in zip(now, snap))
        H.prove("a refused assignment leaves the stored vertices unchanged", same)
        return
    if defect == "open-ring-of-two-points":
        pts = H.array2([[H.real("p0x", lo=-0.1, hi=0.1), H.real("p0y", lo=-0.1, hi=0.1)], [H.real("p1x", lo=0.9, hi=1.1), H.real("p1y", lo=-0.1, hi=0.1)]])
        H.prove("a vertex list with fewer than three points is refused by Polygon", refused(lambda: tdgl.Polygon("film", points=pts)))
        return
    if defect in ("union-of-disjoint", "intersection-of-disjoint"):
        A = _box(H, "A", 0.0, 0.0, 1.0, 1.0)
        B = _box(H, "B", 3.0, 3.0, 4.0, 4.0)
        if sym:
            fakegeo.mark_disjoint(A.points, B.points)
        if defect == "union-of-disjoint":
            H.prove("the union of two disjoint polygons (not a single polygon) is refused", refused(lambda: A.union(B)))
            H.prove("... also through the operator +", refused(lambda: A + B))
        else:
            H.prove("the intersection of two disjoint polygons (empty) is refused", refused(lambda: A.intersection(B)))
            H.prove("... also through the operator *", refused(lambda: A * B))
        return
    film = _box(H, "film", 0.0, 0.0, 10.0, 6.0)
    holes = [_box(H, "hole0", 1.0, 1.0, 3.0, 3.0), _box(H, "hole1", 5.0, 1.0, 7.0, 3.0)]
    terms = [_box(H, "source", -0.5, 1.0, 0.5, 5.0), _box(H, "drain", 9.5, 1.0, 10.5, 5.0)]
    cells = {"outside": ((-0.9, -0.6), (5.2, 5.8)), "film": ((8.2, 8.8), (0.3, 0.7)), "hole0": ((1.3, 2.7), (1.3, 2.7)), "hole1": ((5.3, 6.7), (1.3, 2.7))}
    second = {"probe-outside-film": "outside", "probe-in-hole": "hole1"}.get(defect, "film")
    chosen = ["film", second]
    if defect == "probe-shape":
        Q = np.array([[8.5, 0.5, 0.0], [8.6, 0.6, 0.0]])
    else:
        Q = H.array2([[H.real(f"q{j}x_{c}", lo=cells[c][0][0] + 0.01 * j, hi=cells[c][0][1]), H.real(f"q{j}y_{c}", lo=cells[c][1][0], hi=cells[c][1][1])] for j, c in enumerate(chosen)])
        inF = film.contains_points(Q)
        inH = [h.contains_points(Q) for h in holes]
        for j, c in enumerate(chosen):
            cell_facts(H, "film", K.at(inF, j), j, c != "outside")
            for k, hk in enumerate(inH):
                cell_facts(H, f"hole{k}", K.at(hk, j), j, c == f"hole{k}")
    if defect == "unnamed-film":
        film.name = None
    elif defect == "unnamed-hole":
        holes[1].name = None
    elif defect == "unnamed-terminal":
        terms[1].name = None
    elif defect == "duplicate-terminal-names":
        terms[1].name = terms[0].name
    elif defect == "duplicate-hole-names":
        holes[1].name = holes[0].name
    out = {}

    def build():
        out["dev"] = tdgl.Device("dev", layer=layer, film=film, holes=holes, terminals=terms, probe_points=Q, length_units="um")

    r = refused(build)
    if defect == "well-formed":
        H.prove("a well-formed device definition (named valid polygons, distinct names, probes inside the film and outside the holes) is accepted", not r)
        if not r:
            dev = out["dev"]
            H.prove("the accepted device holds the given film, holes, terminals and probe points", dev.film is film and list(dev.holes) == holes and list(dev.terminals) == terms and np.shape(dev.probe_points.data if hasattr(dev.probe_points, "data") and not isinstance(dev.probe_points, np.ndarray) else dev.probe_points) == (2, 2))
    else:
        H.prove(f"a device definition with the defect '{defect}' is refused with a ValueError", r)


def body_timedep(H, case, fs):
    """Time-dependent currents that are unbalanced on a time window: validated at random times."""
    from types import SimpleNamespace

    import tdgl.solver.solver as sol

    names = ["source", "drain"]
    t0 = H.real("t0", lo=0.0, hi=1.0)
    t1 = H.real("t1", lo=0.0, hi=1.0)
    H.assume(t0 <= t1)
    d = H.real("defect", lo=0.001, hi=1.0)

    def currents(t):
        inside = (t >= t0) & (t <= t1) if H.mode == "sym" else (t0 <= t <= t1)
        if H.is_true(inside):
            return {"source": 1.0 + d, "drain": -1.0}
        return {"source": 1.0, "drain": -1.0}

    if H.mode == "sym":
        class _Rng:
            def random(self, n):
                return H.array([H.real(f"draw{i}", lo=0.0, hi=1.0, hi_open=True) for i in range(n)])

        real_rng = sol.np._extra.get("random") if hasattr(sol.np, "_extra") else None
        sol.np._extra["random"] = SimpleNamespace(default_rng=lambda: _Rng())
    info = [SimpleNamespace(name=nm) for nm in names]
    try:
        try:
            sol.validate_terminal_currents(currents, info, SimpleNamespace(solve_time=1.0), num_evals=3 if H.mode == "sym" else 100)
            rejected = False
        except ValueError:
            rejected = True
    finally:
        if H.mode == "sym":
            sol.np._extra.pop("random", None)
    H.prove("currents that are unbalanced on a time window [t0, t1] inside the run are rejected", rejected)


_CACHE = {}


def _prepare():
    if "dev" in _CACHE:
        return
    import tdgl
    from tdgl.geometry import box

    layer = tdgl.Layer(coherence_length=1.0, london_lambda=2.0, thickness=0.1, gamma=1.0)
    film = tdgl.Polygon("film", points=np.array([[0, 0], [1, 0], [2, 0], [3, 0], [3, 1], [3, 2], [2, 2], [1, 2], [0, 2], [0, 1]], float))
    inner = tdgl.Polygon("inner", points=box(0.4, 0.4, center=(1.5, 1.0), points=8))
    dev = tdgl.Device("d", layer=layer, film=film, terminals=[inner])
    dev.make_mesh(max_edge_length=0, min_points=None)
    _CACHE["dev"] = dev


_cases0 = cases


def cases(tier, seed):  # noqa: F811
    _prepare()
    return _cases0(tier, seed)
