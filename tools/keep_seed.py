#!/usr/bin/env python3
"""keep_seed.py <property> <worktree> : store a confirmed seeded change under /verif/seeded/<name>/"""
import json, os, shutil, sys, subprocess
prop, wt = sys.argv[1], sys.argv[2]
name = sys.argv[3] if len(sys.argv) > 3 else f"{prop}-{os.path.basename(wt)}"
dst = f"/verif/seeded/{name}"
os.makedirs(dst, exist_ok=True)
for f in ("patch.diff", "demo.py", "notes.md"):
    shutil.copy(f"{wt}/MUTATION/{f}", f"{dst}/{f}")
conf = open(f"{wt}.confirm.txt").read() if os.path.exists(f"{wt}.confirm.txt") else ""
open(f"{dst}/confirm.txt", "w").write(conf)
notes = open(f"{dst}/notes.md").read()
meta = dict(property=prop, name=name, source="independent sub-agent given only the property text and a scratch worktree",
            base_commit=subprocess.run(["git", "-C", wt, "rev-parse", "HEAD"], capture_output=True, text=True).stdout.strip(),
            needs_to_manifest=notes[:1500],
            confirmed=dict(demo_with_change_exit=("with=1" in conf and 1) or None, demo_without_change_exit=("without=0" in conf and 0), baseline_tests="BASELINE OK" in conf,
                           how="tools/confirm_seed.sh: demo with change (must fail), reverse-applied (must pass), /tmp/wt/run_tests.sh (705 baseline tests)"),
            detected_by=[])
json.dump(meta, open(f"{dst}/meta.json", "w"), indent=1)
print("kept", dst)
