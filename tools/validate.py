#!/usr/bin/env python3
"""Validates MANIFEST.json and every evidence file against the schemas in /root/.vp (run with python3-vt)."""
import json, sys, os
import jsonschema
V = "/verif"
m = json.load(open(f"{V}/MANIFEST.json"))
jsonschema.validate(m, json.load(open("/root/.vp/MANIFEST.schema.json")))
es = json.load(open("/root/.vp/EVIDENCE.schema.json"))
bad = 0
for c in m["checks"]:
    p = c["evidence_file"]
    if not os.path.exists(p):
        print("MISSING", p); bad += 1; continue
    e = json.load(open(p))
    try:
        jsonschema.validate(e, es)
    except jsonschema.ValidationError as ex:
        print("INVALID", p, ex.message[:200]); bad += 1; continue
    cov = e.get("coverage", {})
    print(c["property_id"], e.get("tier"), "seed", e.get("seed"), "obligations", cov.get("obligations"), "discharged", cov.get("discharged"), "traces", cov.get("traces_validated_against_impl"), "paths", cov.get("states"))
props = [json.loads(l)["id"] for l in open(f"{V}/properties.jsonl")]
claimed = {c["property_id"] for c in m["checks"]}
na = {n["property_id"] for n in m.get("not_applicable", [])}
print("properties", len(props), "claimed", len(claimed), "not_applicable", sorted(na), "unaccounted", sorted(set(props) - claimed - na))
sys.exit(1 if bad else 0)
