#!/usr/bin/env python3
"""Runs the checks against every seeded change: apply (git -C /repo apply), run, undo.
usage: run_seeds.py [seed-name ...] [--all-checks]   Results are written into each meta.json (detected_by / missed_by)."""
import json, os, subprocess, sys, time
V = "/verif"
names = [a for a in sys.argv[1:] if not a.startswith("--")] or sorted(os.listdir(f"{V}/seeded"))
all_checks = "--all-checks" in sys.argv
claimed = [c["property_id"] for c in json.load(open(f"{V}/MANIFEST.json"))["checks"]]
EXTRA = {"C12-b": ["C19"], "C06-b": ["C11"], "C10-b": ["C06"], "C01-b": [], "C05-b": ["C11"], "C02-b": ["C17"], "C03-a": ["C10", "C04"], "C04-a": ["C10"], "C06-a": ["C10"], "C17-a": ["C06"], "C10-a": ["C03", "C04"], "C02-a": ["C12"], "C19-a": ["C01"], "C08-a": ["C01"], "C09-a": ["C01"],
         "C11-b": ["C10"], "C04-b": ["C10", "C03"], "C03-b": ["C10", "C04"], "C17-b": ["C10", "C03", "C06"], "C09-b": ["C13"], "C19-b": ["C11"], "C13-b": ["C09"], "C05-c": ["C02", "C12"], "C13-c": ["C11"], "C02-c": ["C17"], "C01-d": ["C08"], "C06-d": ["C01"], "C09-d": ["C11"], "C10-d": ["C04"], "C04-d": ["C10"], "C08-e": ["C18"], "C11-e": ["C02"], "C18-e": ["C19"], "C17-e": ["C12"], "C07-f": ["C18"], "C14-f": ["C16"], "C12-f": ["C11"], "C05-f": ["C14"]}
assert subprocess.run(["git", "-C", "/repo", "status", "--porcelain"], capture_output=True, text=True).stdout.strip() == "", "/repo not clean"
for name in names:
    d = f"{V}/seeded/{name}"
    meta = json.load(open(f"{d}/meta.json"))
    patch = f"{d}/patch_rebased.diff" if os.path.exists(f"{d}/patch_rebased.diff") else f"{d}/patch.diff"
    r = subprocess.run(["git", "-C", "/repo", "apply", patch], capture_output=True, text=True)
    if r.returncode != 0:
        print(name, "PATCH DOES NOT APPLY", r.stderr[:200]); continue
    checks = claimed if all_checks else [c for c in [meta["property"]] + EXTRA.get(name, []) if c in claimed]
    det, miss, inc = [], [], []
    try:
        for c in checks:
            t0 = time.time()
            p = subprocess.run([f"{V}/check", c, "--tier", "quick"], capture_output=True, text=True, cwd=V, timeout=3600)
            viol = [l for l in p.stdout.splitlines() if l.startswith("VIOLATION")]
            rec = dict(check=c, exit=p.returncode, violations=len(viol), wall_s=round(time.time() - t0))
            (det if (p.returncode == 1 and viol) else inc if p.returncode not in (0, 1) else miss).append(rec)
            print(name, rec, flush=True)
    finally:
        subprocess.run(["git", "-C", "/repo", "checkout", "--", "."])
    meta["patch_used"] = os.path.basename(patch)
    meta["detected_by"] = det
    meta["not_detected_by"] = miss
    meta["inconclusive"] = inc
    json.dump(meta, open(f"{d}/meta.json", "w"), indent=1)
