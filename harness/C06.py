"""C06 - The order parameter is pinned on current terminals and nowhere else.

Operator level: rows of pinned sites are identity rows after the build *and after every
in-place refresh*; rows of all other sites equal those of the unpinned operator; with
`terminal_psi=None` the operator equals the unpinned one.
Step level (one inductive step from an arbitrary state with psi = v on the terminals): the real
`TDGLSolver.__init__` + `update` + `adaptive_euler_step` + `solve_for_psi_squared` are executed
with symbolic mesh weights, psi, mu, epsilon, potential, gamma, u, dt; after the step psi' = v on
every terminal site (one sliced obligation per site) - for v = 0 (default), symbolic v with
|v| <= 1, and v = None (sites evolve by the generic update)."""
import numpy as np

from symx import engine, meshes
from symx.engine import Case

from . import common as K
from . import solver_setup as S

ID = "C06"
ENCODED = [
    "tdgl.finite_volume.operators:build_laplacian",
    "tdgl.finite_volume.operators:MeshOperators.set_link_exponents",
    "tdgl.solver.solver:TDGLSolver.__init__",
    "tdgl.solver.solver:TDGLSolver.update",
    "tdgl.solver.solver:TDGLSolver.adaptive_euler_step",
    "tdgl.solver.solver:TDGLSolver.solve_for_psi_squared",
    "tdgl.solver.options:SolverOptions.validate",
]
BOUNDS = {
    "quick": dict(devices=["bar2", "bar2:remeshed"], row_devices=["bar2"], steps="one inductive step from an arbitrary state", refreshes=2),
    "thorough": dict(devices=["bar2", "bar2:remeshed", "bar3"], row_devices=["bar2", "tee3"], steps="one inductive step from an arbitrary state", refreshes=3),
}
ASSUMPTIONS = [
    "mesh weights arbitrary positive reals on the real device meshes (terminal membership concrete)",
    "identity-row claims: terminals pairwise disjoint in sites (a site listed by two terminals gets the row 2 x identity; the pinning claims themselves are also decided on such a device)",
    "psi arbitrary complex elsewhere, mu arbitrary real, epsilon in [-1,1], gamma >= 0, u > 0, dt > 0, link phases arbitrary",
    "Poisson solve opaque at step level (psi' does not depend on it)",
    "one inductive step: the claim for runs of any length follows because the post-state satisfies the pre-state assumption",
]
OUTSIDE = ["rounding", "cupy path"]
MERGE = True
ABSTRACT_DIV = True
PHASE_AXIOMS = True
TV_SAMPLES = {"quick": 2, "thorough": 2}


def patch_spec(case):
    return S.patch_spec(extra_modules=["tdgl.solver.options"])


def terminal_sites_by_geometry(dev):
    """independent of Device.terminal_info() (and of anything it may cache): the boundary sites of the
    *current* mesh that lie in a terminal polygon"""
    xi0 = float(dev.coherence_length.magnitude)
    pts = xi0 * np.asarray(dev.mesh.sites, dtype=float)
    boundary = set(int(i) for i in dev.mesh.boundary_indices)
    out = []
    for term in dev.terminals:
        inside = np.atleast_1d(term.contains_points(pts))
        out += [i for i in range(len(pts)) if inside[i] and i in boundary]
    return out


def cases(tier, seed):
    out = []
    # identity rows are stated for devices whose terminals share no site (a site inside two terminals is
    # listed twice and its row becomes 2 x identity; pinning itself still holds there: the step cases
    # include such a device, bar3)
    for d in BOUNDS[tier]["row_devices"]:
        meshes.get_device(d, seed)
        out.append(Case(f"rows:{d}", kind="rows", dev=d, seed=seed, refreshes=BOUNDS[tier]["refreshes"]))
    for d in BOUNDS[tier]["devices"]:
        meshes.get_device(d, seed)
        for v in ("zero", "sym", "none"):
            out.append(Case(f"step:{d}:v={v}", kind="step", dev=d, v=v, seed=seed, arbitrary=False))
        # a run may start from a seed solution whose terminal values differ from terminal_psi:
        # from *any* state the terminals carry the configured value after one step
        out.append(Case(f"step-from-any-state:{d}:v=zero", kind="step", dev=d, v="zero", seed=seed, arbitrary=True))
        out.append(Case(f"step-from-any-state:{d}:v=sym", kind="step", dev=d, v="sym", seed=seed, arbitrary=True))
    return out


def body(H, case):
    if case.kind == "rows":
        return body_rows(H, case)
    return body_step(H, case)


def body_rows(H, case):
    import tdgl.finite_volume.operators as ops
    from tdgl.solver.options import SparseSolver

    dev = S.symbolic_device(H, case.dev, case.seed)
    mesh = dev.mesh
    ns, ne = len(mesh.sites), len(mesh.edge_mesh.edges)
    fixed = np.concatenate([t.site_indices for t in dev.terminal_info()]).astype(np.int64)
    fixed_set = set(int(i) for i in fixed)
    if not (0 < len(fixed_set) < ns and len(fixed_set) == len(fixed)):
        raise engine.HarnessError(f"device {case.dev} is not suitable for the row claims: terminals must be disjoint and leave free sites")
    none = np.array([], dtype=np.int64)
    mo = ops.MeshOperators(mesh, SparseSolver.SUPERLU, fixed_sites=fixed, fix_psi=True)
    free = ops.MeshOperators(mesh, SparseSolver.SUPERLU, fixed_sites=none, fix_psi=True)
    off = ops.MeshOperators(mesh, SparseSolver.SUPERLU, fixed_sites=fixed, fix_psi=False)
    for k in range(case.refreshes + 1):
        A = H.reals2(f"A{k}_", ne, 2, lo=-2.0, hi=2.0)
        for m in (mo, free, off):
            m.set_link_exponents(A)
        L, Lf, Lo = mo.psi_laplacian, free.psi_laplacian, off.psi_laplacian
        pat, patf, pato = K.pattern(L), K.pattern(Lf), K.pattern(Lo)
        tag = "build" if k == 0 else f"refresh {k}"
        for i in sorted(fixed_set):
            row = [(a, b) for (a, b) in pat if a == i]
            H.prove(f"{tag}: pinned row {i} has only the diagonal entry", row == [(i, i)])
            H.prove_eq(f"{tag}: pinned row {i} diagonal = 1", K.entry(L, i, i), 1.0)
        for i in range(ns):
            if i in fixed_set:
                continue
            row = [(a, b) for (a, b) in pat if a == i]
            rowf = [(a, b) for (a, b) in patf if a == i]
            H.prove(f"{tag}: free row {i} pattern = unpinned operator", row == rowf)
            for (a, b) in rowf:
                H.prove_eq(f"{tag}: free row entry [{a},{b}] = unpinned operator", K.entry(L, a, b), K.entry(Lf, a, b))
        # pinning disabled (terminal_psi=None): the operator is the unpinned one
        H.prove(f"{tag}: fix_psi=False pattern = unpinned operator", pato == patf)
        H.prove_conj_eq(f"{tag}: fix_psi=False operator = unpinned operator", [(K.entry(Lo, a, b), K.entry(Lf, a, b)) for (a, b) in patf])
        # the gradient is never pinned
        H.prove_conj_eq(f"{tag}: gradient independent of pinning",
                        [(K.entry(mo.psi_gradient, a, b), K.entry(free.psi_gradient, a, b)) for (a, b) in K.pattern(free.psi_gradient)])


def body_step(H, case):
    dev = S.symbolic_device(H, case.dev, case.seed, gamma=H.real("gamma", nonneg=True), u=H.real("u", pos=True))
    mesh = dev.mesh
    ns, ne = len(mesh.sites), len(mesh.edge_mesh.edges)
    if case.v == "zero":
        v = 0.0
    elif case.v == "none":
        v = None
    else:
        v = H.cplx("v", lo=-1.0, hi=1.0)
        H.assume(H.abs2(v) <= 1.0)
    dt = H.real("dt", pos=True)
    opts = S.make_options(dt_init=dt, dt_max=dt, adaptive=False, terminal_psi=v)
    # the vector potential enters through arbitrary link phases
    A = H.reals2("A_", ne, 2, lo=-2.0, hi=2.0)
    A3 = np.concatenate([A, np.zeros((ne, 1))], axis=1) if H.mode == "conc" else None
    if H.mode == "sym":
        from symx.arr import concatenate

        A3 = concatenate([A, S.zeros2(H, ne, 1)], axis=1)
    eps = H.reals("eps", ns, lo=-1.0, hi=1.0)
    solver = S.make_solver(H, dev, opts, A=lambda x, y, z: A3, currents=None, epsilon=S.site_function(dev, eps), validate=(case.v != "sym"))
    fixed = sorted(set(terminal_sites_by_geometry(meshes.get_device(case.dev, case.seed))))
    H.prove("the solver's terminal sites are the boundary sites of the current mesh inside a terminal polygon",
            sorted(set(int(i) for i in np.concatenate([t.site_indices for t in solver.terminal_info]))) == fixed)
    if v is not None:
        H.prove("the sites the solver holds fixed are exactly those terminal sites", sorted(set(int(i) for i in np.asarray(solver.operators.fixed_sites))) == fixed)
    # initial condition
    for i in range(ns):
        want = 1.0 if (i not in fixed or v is None) else v
        H.prove_eq(f"initial psi [{i}]", K.at(solver.psi_init, i), want)
    H.prove("fix_psi iff terminal_psi is not None", solver.operators.fix_psi == (v is not None))
    # arbitrary pre-state with psi = v on the terminals
    psi = [H.cplx(f"p{i}") for i in range(ns)]
    if v is not None and not case.arbitrary:
        for i in fixed:
            psi[i] = v if not isinstance(v, float) else complex(v)
    psi0 = H.array(psi) if H.mode == "sym" else np.array(psi, dtype=complex)
    mu0 = H.reals("m", ns)
    zed = H.array([0.0] * ne) if H.mode == "sym" else np.zeros(ne)
    solver.solve_for_observables = lambda p, dA_dt: (mu0, zed, zed)
    rs = S.running_state(H, solver)
    try:
        res = solver.update({"step": 0, "time": 0.0, "dt": dt}, rs, dt, psi=psi0, mu=mu0, supercurrent=zed, normal_current=zed,
                            induced_vector_potential=S.zeros2(H, ne, 2))
    except RuntimeError as e:
        if "Solver failed to converge" in str(e):
            return  # refused update (C02/C12): no new state
        raise
    for i in fixed:
        if v is not None:
            H.prove_eq(f"psi' = terminal value on terminal site {i}", K.at(res.psi, i), v, slice=True)
    if v is None:
        # free evolution: the update of a terminal site is the generic per-site update (compare with
        # the same step on an operator without any fixed sites)
        from tdgl.solver.solver import TDGLSolver

        free = solver.operators.__class__(mesh, solver.operators.sparse_solver, fixed_sites=np.array([], dtype=np.int64), fix_psi=True)
        free.set_link_exponents(solver.current_A_applied)
        ref = TDGLSolver.solve_for_psi_squared(psi=psi0, abs_sq_psi=abs(psi0) ** 2 if H.mode == "conc" else _abs2(H, psi0), mu=mu0, epsilon=eps,
                                               gamma=solver.gamma, u=solver.u, dt=dt, psi_laplacian=free.psi_laplacian)
        if ref is not None:
            for i in fixed:
                H.prove_eq(f"terminal_psi=None: terminal site {i} follows the generic update", K.at(res.psi, i), K.at(ref[0], i), slice=True)


def _abs2(H, psi):
    from symx import arr

    return arr.absolute(psi) ** 2
