import argparse
import importlib
import os
import sys
import traceback


def main():
    ap = argparse.ArgumentParser()
    ap.add_argument("id")
    ap.add_argument("--tier", default=os.environ.get("VERIF_TIER", "quick"))
    ap.add_argument("--replay", default=None)
    ap.add_argument("--seed", type=int, default=int(os.environ.get("VERIF_SEED", "0")))
    a = ap.parse_args()
    import logging

    logging.disable(logging.CRITICAL)
    from symx import engine

    try:
        harness = importlib.import_module(f"harness.{a.id}")
        if a.replay:
            code = engine.replay_file(harness, a.replay, a.seed)
        elif hasattr(harness, "main"):
            code = harness.main(a.tier, a.seed)
        else:
            code = engine.run_harness(harness, a.tier, a.seed)
    except BaseException as e:
        if isinstance(e, SystemExit):
            raise
        traceback.print_exc()
        print(f"[{a.id}] HARNESS-ERROR {type(e).__name__}: {e}")
        code = 3
    sys.exit(code)


if __name__ == "__main__":
    main()
