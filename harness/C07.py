"""C07 - Mesh geometry is the Delaunay/Voronoi dual of the device domain (partial).

With *symbolic site coordinates* on fixed patches (two triangles sharing an edge, an interior
fan, a boundary fan) the real `generate_voronoi_vertices`, `EdgeMesh.from_mesh`,
`get_dual_edge_lengths`, `get_edges` and `triangle_areas` are executed: circumcentres are
equidistant from the three vertices of their triangle; the dual length of an interior edge is
the distance of the two adjacent circumcentres, of a boundary edge the distance from the
circumcentre to the edge midpoint; edge vectors, lengths and centres are those of the site
pairs; triangle areas are the signed areas.  Boundary edges are exactly those in one triangle
and V - E + T = 1 - holes on the concrete meshes of the family and of real `Device.make_mesh`.
Cell areas: the real `Mesh.from_triangulation` / `compute_voronoi_polygon_areas` on an L-shaped mesh
with a hole under every orientation-preserving similarity (qhull's hull order and the arctan2 ordering
replaced by models proven valid over that family).  What `generate_mesh` hands to Triangle: for the
outlines of a film with holes under a symbolic similarity, the vertices are centred on the bounding
box, every hole marker lies strictly inside its hole in the same frame, the facets are one closed
cycle per outline and the result is shifted back.  On real `Device.make_mesh` meshes (one far from
the origin): one inner boundary loop per declared hole, the triangles cover film minus holes.
The constrained triangulation itself (Triangle) is outside the claim."""
import numpy as np

from symx import engine, meshes
from symx.engine import Case

from . import common as K

ID = "C07"
ENCODED = [
    "tdgl.finite_volume.util:generate_voronoi_vertices",
    "tdgl.finite_volume.util:get_dual_edge_lengths",
    "tdgl.finite_volume.util:get_edges",
    "tdgl.finite_volume.util:triangle_areas",
    "tdgl.finite_volume.util:make_adj_directed_tri_indices",
    "tdgl.finite_volume.edge_mesh:EdgeMesh.from_mesh",
    "tdgl.finite_volume.mesh:Mesh.find_boundary_indices",
    "tdgl.finite_volume.mesh:Mesh.from_triangulation",
    "tdgl.finite_volume.mesh:Mesh.compute_voronoi_areas_polygons",
    "tdgl.finite_volume.util:compute_voronoi_polygon_areas",
    "tdgl.finite_volume.util:get_convex_polygon_area",
    "tdgl.finite_volume.util:orient_convex_polygon",
    "tdgl.finite_volume.util:get_voronoi_polygon_indices",
    "tdgl.device.meshing:generate_mesh",
]
BOUNDS = {
    "quick": dict(patches=["T2", "F5"], coordinates="each site within +-0.1 of its nominal position (orientation preserved)", topology_meshes=["T2", "F5", "F7", "G9", "R8", "device:bar2", "device:holed", "device:holed:shifted"]),
    "thorough": dict(patches=["T2", "F5", "F7", "R8"], coordinates="each site within +-0.1 of its nominal position", topology_meshes=["T2", "F5", "F7", "G9", "R8", "device:bar2", "device:holed", "device:holed:shifted", "device:bar2:shifted", "device:tee3", "device:cross4"]),
}
ASSUMPTIONS = [
    "topology of the patch concrete; site coordinates symbolic in a box that preserves orientation and non-degeneracy (checked: triangle areas > 0 is an obligation)",
    "exact real arithmetic",
]
OUTSIDE = [
    "cell areas beyond the similarity family of the L-shaped mesh (qhull ConvexHull and arctan2 ordering are replaced by models whose combinatorial result is fixed at the nominal mesh and proven valid over the family)",
    "the constrained triangulation itself (Triangle, C; in symbolic runs of generate_mesh it is a stub returning the input vertices plus one arbitrary point), exact tiling beyond the enumerated real device meshes, smoothing, the refinement loop of generate_mesh (min_points / max_edge_length)",
    "terminal-length tolerance (matplotlib Path membership, C++)",
]
MERGE = False
DEFAULT_SLICE = True
HOP_SLICE = True
ABSTRACT_DIV = True  # circumcentre coordinates become definitional quotient variables (keeps identities polynomial)
TV_SAMPLES = {"quick": 2, "thorough": 2}


def patch_spec(case):
    if case.kind == "genmesh":
        spec = engine.std_patch("tdgl.device.meshing")
        spec["tdgl.device.meshing"].update(triangle=_FakeTriangle(), Polygon=_ShoelacePolygon, ensure_unique=lambda c: c)
        return spec
    return engine.std_patch("tdgl.finite_volume.util", "tdgl.finite_volume.edge_mesh", "tdgl.finite_volume.mesh")


# ---- what generate_mesh hands to Triangle ---------------------------------------------------------------
class _FakeTriangle:
    """stand-in for meshpy.triangle in symbolic runs: records the MeshInfo, returns a 'mesh' whose points
    are the input vertices plus one arbitrary Steiner point (Triangle's own work is outside the claim)"""

    last = None

    class MeshInfo:
        def set_points(self, p):
            self.points = p

        def set_facets(self, f):
            self.facets = f

        def set_holes(self, h):
            self.holes = h

    def build(self, mesh_info=None, **kw):
        from types import SimpleNamespace

        from symx.core import CTX

        _FakeTriangle.last = mesh_info
        steiner = _FakeTriangle.steiner
        pts = [[K.at(mesh_info.points, i, 0), K.at(mesh_info.points, i, 1)] for i in range(len(mesh_info.points))] + [list(steiner)]
        return SimpleNamespace(points=pts, elements=[[0, 1, len(pts) - 1]])


class _ShoelacePolygon:
    """model of shapely's Polygon(...).centroid for a simple polygon (area-weighted centroid)"""

    def __init__(self, pts):
        n = len(pts)
        a = cx = cy = 0.0
        for i in range(n):
            x0, y0, x1, y1 = K.at(pts, i, 0), K.at(pts, i, 1), K.at(pts, (i + 1) % n, 0), K.at(pts, (i + 1) % n, 1)
            w = x0 * y1 - x1 * y0
            a, cx, cy = a + w, cx + (x0 + x1) * w, cy + (y0 + y1) * w
        from types import SimpleNamespace

        self.centroid = SimpleNamespace(coords=[(cx / (3 * a), cy / (3 * a))])


class _SpyTriangle:
    """concrete runs: the real meshpy.triangle, recording what generate_mesh hands over"""

    def __init__(self, real):
        self._real, self.MeshInfo = real, real.MeshInfo

    def build(self, mesh_info=None, **kw):
        mesh = self._real.build(mesh_info=mesh_info, **kw)
        _SpyTriangle.last = dict(points=np.array(mesh_info.points), facets=np.array(mesh_info.facets), holes=np.array(mesh_info.holes), out=np.array(mesh.points))
        return mesh


GEN_OUTLINES = {
    "plate+square": (np.array([[0, 0], [1.5, 0], [3, 0], [3, 1.5], [3, 3], [1.5, 3], [0, 3], [0, 1.5]], float), [np.array([[1, 1], [2, 1], [2, 2], [1, 2]], float)]),
    "plate+two": (np.array([[0, 0], [4, 0], [4, 3], [0, 3]], float), [np.array([[0.5, 0.5], [1.5, 0.6], [1.2, 1.4]], float), np.array([[2.5, 1.5], [3.5, 1.5], [3.5, 2.5], [3.0, 2.8], [2.5, 2.5]], float)]),
}


def body_genmesh(H, case):
    import tdgl.device.meshing as M

    film0, holes0 = GEN_OUTLINES[case.mesh]
    sc = H.real("scale", lo=0.1, hi=10.0)
    tx, ty = H.real("tx", lo=-100.0, hi=100.0), H.real("ty", lo=-100.0, hi=100.0)
    move = lambda P: H.array2([[float(x) * sc + tx, float(y) * sc + ty] for x, y in P])
    film, holes = move(film0), [move(h) for h in holes0]
    all0 = np.concatenate([film0] + holes0)
    centre0 = (all0.min(axis=0) + all0.max(axis=0)) / 2
    if H.mode == "sym":
        _FakeTriangle.steiner = (H.real("steiner_x", lo=-50.0, hi=50.0), H.real("steiner_y", lo=-50.0, hi=50.0))
        pts, tris = M.generate_mesh(film, hole_coords=holes, max_volume=0.5 * sc * sc)
        info = _FakeTriangle.last
        P, F, HK = info.points, np.asarray(info.facets), H.array2([K.elems(h) for h in info.holes])
        out_extra = [(len(all0), _FakeTriangle.steiner)]
    else:
        real = M.triangle
        M.triangle = _SpyTriangle(real)
        try:
            pts, tris = M.generate_mesh(film, hole_coords=holes, max_volume=0.5 * sc * sc)
        finally:
            M.triangle = real
        rec = _SpyTriangle.last
        P, F, HK = rec["points"], rec["facets"], rec["holes"]
        out_extra = [(j, (rec["out"][j, 0], rec["out"][j, 1])) for j in range(len(all0), len(rec["out"]))][:1]
    n = len(all0)
    H.prove("every outline vertex is handed to Triangle", len(P) == n)
    for i in range(n):
        for c in range(2):
            H.prove_eq(f"vertex {i} coordinate {c} handed to Triangle is centred on the bounding box", K.at(P, i, c), sc * float(all0[i, c] - centre0[c]), scale=100.0)
            H.prove_eq(f"returned point {i} coordinate {c} is the outline vertex in the caller's frame", K.at(pts, i, c), K.at(film if i < len(film0) else None, i, c) if i < len(film0) else _hole_vertex(holes, holes0, i - len(film0), c), scale=100.0)
    for j, (sx, sy) in out_extra:
        H.prove_eq(f"returned point {j} (added by Triangle) is shifted back by the bounding-box centre: x", K.at(pts, j, 0), sx + (sc * float(centre0[0]) + tx), scale=100.0)
        H.prove_eq(f"returned point {j} (added by Triangle) is shifted back by the bounding-box centre: y", K.at(pts, j, 1), sy + (sc * float(centre0[1]) + ty), scale=100.0)
    # facets: one closed cycle per outline
    start, want = 0, []
    for ring in [film0] + holes0:
        m = len(ring)
        want += [(start + k, start + (k + 1) % m) for k in range(m)]
        start += m
    H.prove("facets are one closed cycle per outline (film, then each hole)", [tuple(map(int, f)) for f in F] == want)
    H.prove("one marker per hole", len(HK) == len(holes0))
    start = len(film0)
    for k, h0 in enumerate(holes0):
        m = len(h0)
        for e in range(m):
            a, b = start + e, start + (e + 1) % m
            ax, ay, bx, by = K.at(P, a, 0), K.at(P, a, 1), K.at(P, b, 0), K.at(P, b, 1)
            mx, my = K.at(HK, k, 0), K.at(HK, k, 1)
            H.prove(f"hole {k}: the marker lies strictly inside the hole outline handed to Triangle (edge {e})", (bx - ax) * (my - ay) - (by - ay) * (mx - ax) > 0)
        start += m


def _hole_vertex(holes, holes0, i, c):
    for h, h0 in zip(holes, holes0):
        if i < len(h0):
            return K.at(h, i, c)
        i -= len(h0)
    raise IndexError(i)


def cases(tier, seed):
    b = BOUNDS[tier]
    out = [Case(f"patch:{p}", kind="patch", mesh=p, seed=seed) for p in b["patches"]]
    try:
        if "L" not in _AREA_MESH:
            _AREA_MESH["L"] = lshape_mesh()
        out.append(Case("areas:L-shape-with-hole:rot=0", kind="areas", rot=(1, 0), seed=seed))
        if tier == "thorough":
            from fractions import Fraction

            out.append(Case("areas:L-shape-with-hole:rot=3-4-5", kind="areas", rot=(Fraction(3, 5), Fraction(4, 5)), seed=seed))
    except Exception as e:
        out.append(Case("areas:L-shape-with-hole", kind="broken", mesh="L-shape", seed=seed, error=f"{type(e).__name__}: {e}"[:200]))
    for g in GEN_OUTLINES:
        out.append(Case(f"generate_mesh:{g}", kind="genmesh", mesh=g, seed=seed))
    for m in b["topology_meshes"]:
        try:
            meshes.warm([m], seed)
            out.append(Case(f"topology:{m}", kind="topology", mesh=m, seed=seed))
        except Exception as e:  # the real mesh construction itself fails: reported by the topology case
            out.append(Case(f"topology:{m}", kind="broken", mesh=m, seed=seed, error=f"{type(e).__name__}: {e}"[:200]))
    return out


# ---- cell areas under orientation-preserving similarities ---------------------------------------------
class _Angles:
    """result of np.arctan2(dy, dx) on symbolic arrays: only ever sorted"""

    def __init__(self, dy, dx):
        self.dy, self.dx = dy, dx


def _nominal_env():
    from symx import feval
    from symx.core import CTX

    return feval.Env(CTX, dict(_NOMINAL))


_NOMINAL = {}


def _f(env, x):
    return env.eval_sc(x).real if hasattr(x, "re") else float(x)


def _cross(ax, ay, bx, by):
    return ax * by - ay * bx


_SEEN_LEMMAS = set()


def _lemma(name, cond):
    import z3
    from symx.core import CTX

    e = z3.simplify(cond.e) if hasattr(cond, "e") else z3.BoolVal(bool(cond))
    if z3.is_true(e):
        return
    key = (id(CTX.lemmas), e.sexpr())
    if key in _SEEN_LEMMAS:
        return
    _SEEN_LEMMAS.add(key)
    CTX.lemmas.append((name, e, [], []))


def _lemma_all(name, conds):
    acc = None
    for c in conds:
        if isinstance(c, (bool, np.bool_)):
            if not c:
                acc = False
                break
            continue
        acc = c if acc is None else (acc & c)
    if acc is None:
        return
    _lemma(name, acc)


def make_stubs(H):
    """models of scipy.spatial.ConvexHull and of argsort(arctan2(...)) whose combinatorial result
    is computed at the nominal point and whose validity over the whole symbolic family is stated as
    lemma obligations (a failed lemma is a harness problem, never a verdict)"""
    import scipy.spatial as sps
    from symx import arr

    class Hull:
        def __init__(self, coords):
            env = _nominal_env()
            d = np.asarray(arr._d(coords), dtype=object)
            nom = np.array([[_f(env, d[i, 0]), _f(env, d[i, 1])] for i in range(len(d))])
            real = sps.ConvexHull(nom)  # may raise QhullError exactly as the real code would
            self.vertices = np.array(real.vertices)
            vs = list(self.vertices)
            k = len(vs)
            area = 0.0
            for a in range(k):
                i, j = vs[a], vs[(a + 1) % k]
                area = area + _cross(d[i, 0], d[i, 1], d[j, 0], d[j, 1])
            self.volume = area / 2
            # validity: hull vertices in strictly convex counter-clockwise position, other points inside
            conds = []
            for a in range(k):
                i, j, l = vs[a], vs[(a + 1) % k], vs[(a + 2) % k]
                conds.append(_cross(d[j, 0] - d[i, 0], d[j, 1] - d[i, 1], d[l, 0] - d[j, 0], d[l, 1] - d[j, 1]) > 0)
                for q in range(len(d)):
                    if q not in vs:
                        conds.append(_cross(d[j, 0] - d[i, 0], d[j, 1] - d[i, 1], d[q, 0] - d[i, 0], d[q, 1] - d[i, 1]) >= 0)
            _lemma_all("hull-valid", conds)

    def arctan2(dy, dx):
        if not arr.has_sym([dy, dx]):
            return np.arctan2(dy, dx)
        return _Angles(dy, dx)

    def argsort(a, *args, **kw):
        if not isinstance(a, _Angles):
            return np.argsort(a, *args, **kw)
        env = _nominal_env()
        dy = [x for x in np.asarray(arr._d(a.dy), dtype=object)]
        dx = [x for x in np.asarray(arr._d(a.dx), dtype=object)]
        ang = [np.arctan2(_f(env, y), _f(env, x)) for y, x in zip(dy, dx)]
        order = list(np.argsort(ang))
        # validity: the sign pattern of dy and the counter-clockwise order are those of the nominal point
        conds = []
        for i in range(len(dy)):
            ny = _f(env, dy[i])
            if abs(ny) < 1e-12:
                conds.append((dy[i] == 0) & ((dx[i] > 0) if _f(env, dx[i]) > 0 else (dx[i] < 0)))
            else:
                conds.append((dy[i] > 0) if ny > 0 else (dy[i] < 0))
        for a_, b_ in zip(order[:-1], order[1:]):
            conds.append(_cross(dx[a_], dy[a_], dx[b_], dy[b_]) > 0)
        _lemma_all("angle-order-valid", conds)
        return np.array(order)

    return Hull, arctan2, argsort


def lshape_mesh():
    """a real mesh (Triangle) of an L-shaped film with a box hole: re-entrant film corner, hole
    corners, straight boundaries and interior sites"""
    import tdgl

    layer = tdgl.Layer(coherence_length=1.0, london_lambda=2.0, thickness=0.1)
    film = tdgl.Polygon("film", points=np.array([[0, 0], [4, 0], [4, 2], [2, 2], [2, 4], [0, 4]], float))
    hole = tdgl.Polygon("hole", points=np.array([[0.75, 0.75], [1.5, 0.75], [1.5, 1.5], [0.75, 1.5]], float))
    dev = tdgl.Device("L", layer=layer, film=film, holes=[hole])
    dev.make_mesh(max_edge_length=1.6, min_points=None)
    return dev.mesh


_AREA_MESH = {}


def body_areas(H, case):
    from fractions import Fraction

    from symx import arr
    from tdgl.finite_volume.mesh import Mesh

    mesh0 = _AREA_MESH["L"]
    pts, tris = np.asarray(mesh0.sites), np.asarray(mesh0.elements)
    n = len(pts)
    c, sn = case.rot
    s = H.real("scale", lo=0.5, hi=2.0)
    tx, ty = H.real("tx", lo=-3.0, hi=3.0), H.real("ty", lo=-3.0, hi=3.0)
    _NOMINAL.clear()
    _NOMINAL.update({"scale": 1.0, "tx": 0.0, "ty": 0.0})
    if H.mode == "sym":
        rows = [[s * (Fraction(c) * Fraction(float(px)) - Fraction(sn) * Fraction(float(py))) + tx,
                 s * (Fraction(sn) * Fraction(float(px)) + Fraction(c) * Fraction(float(py))) + ty] for px, py in pts]
    else:
        rows = [[s * (float(c) * px - float(sn) * py) + tx, s * (float(sn) * px + float(c) * py) + ty] for px, py in pts]
    sites = H.array2(rows)
    import tdgl.finite_volume.util as U

    if H.mode == "sym":
        Hull, at2, asort = make_stubs(H)
        saved = (U.ConvexHull, U.np._extra.get("arctan2"), U.np._extra.get("argsort"))
        U.ConvexHull = Hull
        U.np._extra["arctan2"], U.np._extra["argsort"] = at2, asort
    try:
        m = Mesh.from_triangulation(sites, tris)
    finally:
        if H.mode == "sym":
            U.ConvexHull = saved[0]
            U.np._extra.pop("arctan2", None)
            U.np._extra.pop("argsort", None)
    areas = K.elems(m.areas)
    cc = m.dual_sites
    # ---- oracle: clipped Voronoi region = sum over incident triangles of the kite (site, midpoint, circumcentre, midpoint)
    nom_cc = np.asarray(mesh0.dual_sites)
    good = precondition_sites(pts, tris, nom_cc)
    H.prove("some boundary, re-entrant and interior sites meet the Delaunay / unencroached precondition", len(good) >= 6)
    for i in sorted(good):
        tot = 0.0
        px, py = K.at(sites, i, 0), K.at(sites, i, 1)
        for t, tri in enumerate(tris):
            tri = [int(v) for v in tri]
            if i not in tri:
                continue
            k = tri.index(i)
            a, b = tri[(k + 1) % 3], tri[(k + 2) % 3]  # (i, a, b) counter-clockwise
            max_, may_ = (px + K.at(sites, a, 0)) / 2, (py + K.at(sites, a, 1)) / 2
            mbx, mby = (px + K.at(sites, b, 0)) / 2, (py + K.at(sites, b, 1)) / 2
            cx, cy = K.at(cc, t, 0), K.at(cc, t, 1)
            tot = tot + (_cross(max_ - px, may_ - py, cx - px, cy - py) + _cross(cx - px, cy - py, mbx - px, mby - py)) / 2
        H.prove_eq(f"cell area of site {i} = area of its Voronoi region clipped to the domain", areas[i], tot, timeout=120)


def precondition_sites(pts, tris, cc):
    """sites all of whose incident triangles are locally Delaunay with unencroached boundary edges
    (circumcentre on the inner side of every boundary edge), evaluated on the nominal mesh"""
    from collections import defaultdict

    edge_tris = defaultdict(list)
    for t, tri in enumerate(tris):
        for a, b in ((tri[0], tri[1]), (tri[1], tri[2]), (tri[2], tri[0])):
            edge_tris[(min(int(a), int(b)), max(int(a), int(b)))].append(t)
    bad = set()
    for (a, b), ts in edge_tris.items():
        pa, pb = pts[a], pts[b]
        if len(ts) == 1:
            t = ts[0]
            third = [int(v) for v in tris[t] if int(v) not in (a, b)][0]
            side_third = _cross(pb[0] - pa[0], pb[1] - pa[1], pts[third][0] - pa[0], pts[third][1] - pa[1])
            side_cc = _cross(pb[0] - pa[0], pb[1] - pa[1], cc[t][0] - pa[0], cc[t][1] - pa[1])
            if side_cc * side_third < -1e-12:
                bad |= {int(v) for v in tris[t]}
        else:
            t1, t2 = ts
            o1 = [int(v) for v in tris[t1] if int(v) not in (a, b)][0]
            o2 = [int(v) for v in tris[t2] if int(v) not in (a, b)][0]

            def ang(o):
                u, v = pts[a] - pts[o], pts[b] - pts[o]
                return np.arccos(np.clip(np.dot(u, v) / (np.linalg.norm(u) * np.linalg.norm(v)), -1, 1))

            if ang(o1) + ang(o2) > np.pi + 1e-9:
                bad |= {a, b, o1, o2}
    return set(range(len(pts))) - bad


def body(H, case):
    if case.kind == "areas":
        return body_areas(H, case)
    if case.kind == "broken":
        raise engine.HarnessError(f"the real Mesh.from_triangulation fails on {case.mesh}: {case.error}")
    if case.kind == "genmesh":
        return body_genmesh(H, case)
    return body_patch(H, case) if case.kind == "patch" else body_topology(H, case)


def body_patch(H, case):
    from tdgl.finite_volume.edge_mesh import EdgeMesh
    from tdgl.finite_volume.util import generate_voronoi_vertices, get_edges, triangle_areas

    pts, tris = meshes.coords(case.mesh, case.seed)
    for t in tris:  # counter-clockwise
        a, b, c = pts[t]
        if (b[0] - a[0]) * (c[1] - a[1]) - (b[1] - a[1]) * (c[0] - a[0]) < 0:
            t[1], t[2] = t[2], t[1]
    n = len(pts)
    sites = H.array2([[H.real(f"x{i}", lo=float(pts[i, 0]) - 0.1, hi=float(pts[i, 0]) + 0.1), H.real(f"y{i}", lo=float(pts[i, 1]) - 0.1, hi=float(pts[i, 1]) + 0.1)] for i in range(n)])
    cc = generate_voronoi_vertices(sites, tris)
    for t, tri in enumerate(tris):
        d2 = [(K.at(cc, t, 0) - K.at(sites, int(v), 0)) ** 2 + (K.at(cc, t, 1) - K.at(sites, int(v), 1)) ** 2 for v in tri]
        H.prove_eq(f"triangle {t}: circumcentre equidistant from vertices 0 and 1", d2[0], d2[1])
        H.prove_eq(f"triangle {t}: circumcentre equidistant from vertices 0 and 2", d2[0], d2[2])
    ta = K.elems(triangle_areas(sites, tris))
    for t, tri in enumerate(tris):
        (x0, y0), (x1, y1), (x2, y2) = [(K.at(sites, int(v), 0), K.at(sites, int(v), 1)) for v in tri]
        H.prove_eq(f"triangle {t}: area = signed area of its vertices", ta[t], ((x1 - x0) * (y2 - y0) - (y1 - y0) * (x2 - x0)) / 2)
        H.prove(f"triangle {t}: positively oriented and non-degenerate in the whole box", ta[t] > 0)
    em = EdgeMesh.from_mesh(sites, tris, cc)
    edges, is_b = get_edges(tris)
    tri_of = {}
    for t, tri in enumerate(tris):
        for a, b in ((tri[0], tri[1]), (tri[1], tri[2]), (tri[2], tri[0])):
            tri_of.setdefault((min(int(a), int(b)), max(int(a), int(b))), []).append(t)
    H.prove("edge list = the unique site pairs of the triangles", sorted(map(tuple, np.asarray(em.edges).tolist())) == sorted(tri_of))
    for e, (i, j) in enumerate(np.asarray(em.edges)):
        i, j = int(i), int(j)
        dx = K.at(sites, j, 0) - K.at(sites, i, 0)
        dy = K.at(sites, j, 1) - K.at(sites, i, 1)
        H.prove_eq(f"edge {e}: direction x", K.at(em.directions, e, 0), dx)
        H.prove_eq(f"edge {e}: direction y", K.at(em.directions, e, 1), dy)
        H.prove_eq(f"edge {e}: length^2", K.at(em.edge_lengths, e) ** 2, dx * dx + dy * dy)
        H.prove_eq(f"edge {e}: centre x", K.at(em.centers, e, 0), (K.at(sites, i, 0) + K.at(sites, j, 0)) / 2)
        H.prove_eq(f"edge {e}: centre y", K.at(em.centers, e, 1), (K.at(sites, i, 1) + K.at(sites, j, 1)) / 2)
        ts = tri_of[(min(i, j), max(i, j))]
        boundary = len(ts) == 1
        H.prove(f"edge {e}: boundary flag = 'in exactly one triangle'", (e in set(np.asarray(em.boundary_edge_indices).tolist())) == boundary)
        if boundary:
            mx, my = (K.at(sites, i, 0) + K.at(sites, j, 0)) / 2, (K.at(sites, i, 1) + K.at(sites, j, 1)) / 2
            want = (K.at(cc, ts[0], 0) - mx) ** 2 + (K.at(cc, ts[0], 1) - my) ** 2
        else:
            want = (K.at(cc, ts[0], 0) - K.at(cc, ts[1], 0)) ** 2 + (K.at(cc, ts[0], 1) - K.at(cc, ts[1], 1)) ** 2
        H.prove_eq(f"edge {e}: dual length^2 = {'circumcentre-to-midpoint' if boundary else 'circumcentre-to-circumcentre'} distance^2", K.at(em.dual_edge_lengths, e) ** 2, want, timeout=120)
        H.prove(f"edge {e}: dual length >= 0", K.at(em.dual_edge_lengths, e) >= 0)


def body_topology(H, case):
    from tdgl.finite_volume.mesh import Mesh
    from tdgl.finite_volume.util import get_edges

    mesh = meshes.get(case.mesh, case.seed)
    tris = mesh.elements
    V, T = len(mesh.sites), len(tris)
    edges, is_b = get_edges(tris)
    count = {}
    for tri in tris:
        for a, b in ((tri[0], tri[1]), (tri[1], tri[2]), (tri[2], tri[0])):
            k = (min(int(a), int(b)), max(int(a), int(b)))
            count[k] = count.get(k, 0) + 1
    H.prove("edges are the sorted unique site pairs", [tuple(map(int, e)) for e in edges] == sorted(count))
    H.prove("boundary edges are exactly those in one triangle", [bool(x) for x in is_b] == [count[tuple(map(int, e))] == 1 for e in edges])
    H.prove("no edge is shared by more than two triangles", max(count.values()) <= 2)
    bsites = sorted({v for (e, c) in count.items() if c == 1 for v in e})
    H.prove("boundary sites are the end points of boundary edges", sorted(Mesh.find_boundary_indices(tris).tolist()) == bsites)
    H.prove("stored boundary indices agree", sorted(np.asarray(mesh.boundary_indices).tolist()) == bsites)
    # number of boundary loops - 1 = number of holes
    adj = {}
    for (a, b), c in count.items():
        if c == 1:
            adj.setdefault(a, []).append(b)
            adj.setdefault(b, []).append(a)
    seen, loops = set(), 0
    for s in adj:
        if s in seen:
            continue
        loops += 1
        todo = [s]
        while todo:
            v = todo.pop()
            if v in seen:
                continue
            seen.add(v)
            todo.extend(adj[v])
    H.prove("every boundary site has exactly two boundary edges", all(len(v) == 2 for v in adj.values()))
    H.prove(f"Euler characteristic V - E + T = 1 - holes ({loops - 1} holes)", V - len(edges) + T == 1 - (loops - 1))
    if case.mesh.startswith("device:"):
        dev = meshes.get_device(case.mesh.split(":", 1)[1], case.seed)

        def shoelace(p):
            p = np.asarray(p, float)
            return 0.5 * abs(float(np.dot(p[:, 0], np.roll(p[:, 1], -1)) - np.dot(p[:, 1], np.roll(p[:, 0], -1))))

        from tdgl.finite_volume.util import triangle_areas as tri_areas

        H.prove(f"the mesh has one inner boundary loop per declared hole ({len(dev.holes)})", loops - 1 == len(dev.holes))
        want = shoelace(dev.film.points) - sum(shoelace(h.points) for h in dev.holes)
        got = float(np.sum(tri_areas(mesh.sites, tris)))
        H.prove("the triangles cover the area of the film minus its holes (1e-9)", abs(got - want) <= 1e-9 * want)
        inside = [bool(h.contains_points(mesh.sites[tris].mean(axis=1)).any()) for h in dev.holes]
        H.prove("no triangle centroid lies inside a declared hole", not any(inside))
    from tdgl.finite_volume.util import triangle_areas

    H.prove("all triangles positively oriented and non-degenerate", bool((triangle_areas(mesh.sites, tris) > 0).all()))
    H.prove("edge mesh uses the same edges", np.array_equal(np.asarray(mesh.edge_mesh.edges), edges))
