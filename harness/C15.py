"""C15 - A stopped simulation leaves a clean, readable, truthful output.

The real `TDGLSolver.solve` (DataHandler context manager, Runner loop, Solution assembly) is
executed on an in-memory file system / HDF5 tree with an update function that raises an
exception or KeyboardInterrupt at a chosen step, or a frame writer that fails at a chosen frame;
step sizes and solve / thermalisation times are symbolic, crash step, crash site, exception kind,
the answer typed at the pause prompt, explicit path vs. temporary directory and the set of
pre-existing files are forked.  Afterwards: every handle is closed, no `.tmp` file and no
temporary directory remain, the output holds exactly the frames written before the stop,
cancellation returns a solution (None during thermalisation), pre-existing files are untouched
and the chosen name is fresh."""
import numpy as np

from symx import core, engine, fakeh5, meshes
from symx.engine import Case

from . import common as K
from . import solver_setup as S

ID = "C15"
ENCODED = [
    "tdgl.solver.runner:DataHandler.__init__",
    "tdgl.solver.runner:DataHandler._create_output_file",
    "tdgl.solver.runner:DataHandler.__enter__",
    "tdgl.solver.runner:DataHandler.__exit__",
    "tdgl.solver.runner:DataHandler.close",
    "tdgl.solver.runner:DataHandler.save_time_step",
    "tdgl.solver.runner:Runner.run",
    "tdgl.solver.runner:Runner._run_stage",
    "tdgl.solver.solver:TDGLSolver.solve",
    "tdgl.solution.solution:Solution.__init__",
    "tdgl.solution.solution:Solution.to_hdf5",
]
BOUNDS = {
    "quick": dict(max_steps=2, crash_steps="0..2", stages=["Thermalizing", "Simulating"], preexisting=["none", "out.h5", "out.h5+out-1.h5", "out.h5+out.h5.tmp", "out.h5.tmp"]),
    "thorough": dict(max_steps=5, crash_steps="0..5", stages=["Thermalizing", "Simulating"], preexisting=["none", "out.h5", "out.h5+out-1.h5", "out.h5+out.h5.tmp", "out.h5.tmp", "out.h5+out-1.h5+out-2.h5", "out.h5+out.h5.tmp+out-1.h5.tmp"]),
}
ASSUMPTIONS = [
    "HDF5 / file system replaced by an in-memory model (exclusive create raises on existing names, handles tracked, every mutation logged)",
    "update function scripted (raises at the chosen step, otherwise returns the state unchanged and a symbolic step size in [1/2,1])",
    "frame-writer faults are injected at the entry of DataHandler.save_time_step (a fault in the middle of an HDF5 write is outside the model)",
    "input() at the pause prompt returns the forked answer",
]
OUTSIDE = ["what HDF5 leaves on disk after a real mid-write fault", "OS-level locking", "SIGKILL"]
TV_SAMPLES = {"quick": 1, "thorough": 1}
MAX_PATHS = {"quick": 6000, "thorough": 60000}


class Injected(Exception):
    pass


def patch_spec(case):
    fs = fakeh5.FakeFS()
    fs.dirs.add("/work")
    case.params["_fs"] = fs
    spec = S.patch_spec(extra_modules=["tdgl.solution.data", "tdgl.solution.solution"])
    h5 = fakeh5.FakeH5py(fs)
    fos = fakeh5.FakeOs(fs)
    spec["tdgl.solver.runner"].update(h5py=h5, tempfile=fakeh5.FakeTempfile(fs), os=fos, tqdm=fakeh5.FakeTqdm, datetime=fakeh5.FakeDatetime,
                                      Path=fakeh5.make_path_class(fs), input=lambda prompt="": case.params.get("_answer", "n"))
    spec["tdgl.solver.solver"].update(datetime=fakeh5.FakeDatetime, os=fos)
    spec["tdgl.solution.solution"].update(h5py=h5, os=fos, datetime=fakeh5.FakeDatetime, shutil=fakeh5.FakeShutil(fs))
    spec["tdgl.solution.data"].update(h5py=h5)
    spec.setdefault("tdgl.device.device", {}).update(h5py=h5, os=fos)
    return spec


def cases(tier, seed):
    b = BOUNDS[tier]
    meshes.get_device("bar0", seed)
    out = []
    for explicit in (True, False):
        for pre in (b["preexisting"] if explicit else ["none"]):
            # (the choice of the file name does not depend on the thermalisation stage: in the thorough tier
            # the two-stage runs, 20x the paths, are explored without pre-existing files only; the quick tier
            # explores them for every scenario with shorter runs)
            for skip in ((False, True) if (tier == "quick" or pre == "none") else (False,)):
                out.append(Case(f"stop:explicit={int(explicit)}:pre={pre}:skip={int(skip)}", N=b["max_steps"], explicit=explicit, pre=pre, skip=skip, seed=seed))
    return out


class SymFS:
    """in-memory model (symbolic run)"""

    def __init__(self, case):
        self.fs = case.params["_fs"]
        fs = self.fs
        fs.files.clear(); fs.dirs.clear(); fs.dirs.add("/work"); fs.open_handles.clear(); fs.log.clear(); fs.tmp_counter = 0; fs.fault = None
        self.h5 = fakeh5.FakeH5py(fs)
        self.work = "/work"

    def make_preexisting(self, names):
        self.pre = [self.work + "/" + n for n in names]
        for p in self.pre:
            f = self.h5.open(p, "x")
            f.create_group("data")
            f["marker"] = np.array([1.0, 2.0])
            f.close()
        self.snap = {p: repr(fakeh5.tree_repr(self.fs.files[p])) for p in self.pre}
        self.fs.log.clear()

    def open_handles(self):
        return len(self.fs.open_handles)

    def tmp_files(self):
        return [p for p in self.fs.files if p.endswith(".tmp")]

    def temp_dirs(self):
        return [d for d in self.fs.dirs if d.startswith("/tmp/")]

    def untouched(self, p):
        touched = [e for e in self.fs.log if e[1] == p and e[0] != "close"]
        return p in self.fs.files and repr(fakeh5.tree_repr(self.fs.files[p])) == self.snap[p] and not touched

    def created(self):
        return sorted(p for p in self.fs.files if p not in self.pre and not p.endswith(".tmp"))

    def open_read(self, path):
        return self.h5.open(path, "r")

    def cleanup(self):
        pass


class RealFS:
    """real files in a scratch directory (concrete replay on the unpatched code)"""

    def __init__(self, case):
        import tempfile

        self.work = tempfile.mkdtemp(prefix="c15-")
        self.tmp_before = set(__import__("os").listdir(tempfile.gettempdir()))

    def make_preexisting(self, names):
        import hashlib
        import os

        import h5py

        self.pre = [os.path.join(self.work, n) for n in names]
        for p in self.pre:
            with h5py.File(p, "x") as f:
                f.create_group("data")
                f["marker"] = np.array([1.0, 2.0])
        self.snap = {p: hashlib.sha256(open(p, "rb").read()).hexdigest() for p in self.pre}
        self.before = set(os.listdir(self.work))
        import h5py.h5f as h5f

        self.handles_before = h5f.get_obj_count(h5f.OBJ_ALL, h5f.OBJ_FILE)

    def open_handles(self):
        import h5py.h5f as h5f

        return h5f.get_obj_count(h5f.OBJ_ALL, h5f.OBJ_FILE) - self.handles_before

    def tmp_files(self):
        import os

        return [os.path.join(self.work, p) for p in os.listdir(self.work) if p.endswith(".tmp")]

    def temp_dirs(self):
        import os
        import tempfile

        new = set(os.listdir(tempfile.gettempdir())) - self.tmp_before
        return [d for d in new if d.startswith("tmp") and os.path.isdir(os.path.join(tempfile.gettempdir(), d))]

    def untouched(self, p):
        import hashlib
        import os

        return os.path.exists(p) and hashlib.sha256(open(p, "rb").read()).hexdigest() == self.snap[p]

    def created(self):
        import os

        return sorted(os.path.join(self.work, n) for n in set(os.listdir(self.work)) - self.before if not n.endswith(".tmp"))

    def open_read(self, path):
        import h5py

        return h5py.File(path, "r")

    def cleanup(self):
        import shutil

        shutil.rmtree(self.work, ignore_errors=True)


def body(H, case):
    import tdgl.solver.runner as R

    view = SymFS(case) if H.mode == "sym" else RealFS(case)
    try:
        return _body(H, case, view, R)
    finally:
        view.cleanup()


def _body(H, case, view, R):
    import builtins
    import os

    N, k = case.N, 2
    view.make_preexisting([] if case.pre == "none" else case.pre.split("+"))
    pre_names = view.pre
    T = H.real("T", lo=0.0, hi=N / 2, lo_open=True)
    Ts = H.real("Ts", lo=0.0, hi=N / 2, lo_open=True) if case.skip else 0.0
    dts = [H.real(f"dt{i}", lo=0.5, hi=1.0) for i in range(2 * N + 4)]
    site = H.choice("site", ["update", "writer", "none"])
    kind = H.choice("kind", ["exception", "interrupt"]) if site != "none" else "none"
    crash = H.choice("crash_step", list(range(N + 1))) if site != "none" else None
    stage = H.choice("crash_stage", ["Thermalizing", "Simulating"]) if (site == "update" and case.skip) else "Simulating"
    pause = H.choice("pause_on_interrupt", [True, False]) if kind == "interrupt" else True
    answer = H.choice("answer", ["y", "n"]) if (kind == "interrupt" and pause) else "n"
    case.params["_answer"] = answer
    dev = S.symbolic_device(H, "bar0", case.seed, symbolic_mesh=False)
    out_path = os.path.join(view.work, "out.h5") if case.explicit else None
    opts = S.make_options(solve_time=T, skip_time=Ts, dt_init=dts[0], dt_max=1.0, adaptive=False, save_every=k, output_file=out_path, pause_on_interrupt=pause)
    solver = S.make_solver(H, dev, opts, validate=False)
    st = dict(calls=0, stage="Thermalizing" if case.skip else "Simulating", fired=False, frames=0)

    def exc():
        return Injected("injected fault") if kind == "exception" else KeyboardInterrupt()

    def update(state, running_state, dt, *, psi, mu, supercurrent, normal_current, induced_vector_potential, **kw):
        if st["stage"] == "Thermalizing" and state["step"] == 0 and st["calls"] > 0:
            st["stage"] = "Simulating"
        if st["calls"] > 2 * N + 2:
            raise core.UnwindBound("too many updates")
        i = st["calls"]
        st["calls"] += 1
        if site == "update" and not st["fired"] and st["stage"] == stage and state["step"] == crash:
            st["fired"] = True
            raise exc()
        running_state.append("dt", dts[i])
        return (dts[i], psi, mu, supercurrent, normal_current, induced_vector_potential)

    solver.update = update
    real_save = R.DataHandler.save_time_step

    def save_time_step(self, state, data, running_state):
        if site == "writer" and not st["fired"] and st["frames"] == crash:
            st["fired"] = True
            raise exc()
        st["frames"] += 1
        return real_save(self, state, data, running_state)

    R.DataHandler.save_time_step = save_time_step
    real_input = builtins.input
    if H.mode != "sym":
        builtins.input = lambda prompt="": answer
    solution, raised = None, None
    try:
        solution = solver.solve()
    except Injected as e:
        raised = e
    except KeyboardInterrupt as e:
        raised = e
    except (engine.HarnessError, engine.ConcreteReject):
        raise
    except Exception as e:  # an error raised by the code under test itself is an error stop too
        raised = e
    finally:
        R.DataHandler.save_time_step = real_save
        builtins.input = real_input
    tag = f"site={site} kind={kind} crash={crash} stage={stage} pause={pause} answer={answer}"
    # ---- every handle closed, nothing temporary left ----------------------------------------------
    H.prove(f"[{tag}] every HDF5 handle is closed", view.open_handles() == 0)
    H.prove(f"[{tag}] no .tmp file remains (other than files that existed before the run)", not [p for p in view.tmp_files() if p not in pre_names])
    H.prove(f"[{tag}] no temporary directory remains", not view.temp_dirs())
    # ---- pre-existing files untouched, fresh name ------------------------------------------------
    for p in pre_names:
        H.prove(f"[{tag}] pre-existing {os.path.basename(p)} is never opened for writing or modified", view.untouched(p))
    created = view.created()
    if case.explicit:
        H.prove(f"[{tag}] exactly one new file exists after the run", len(created) == 1 and created[0] not in pre_names)
        serial = 0  # first name for which neither the file nor its .tmp companion existed before the run
        taken = {os.path.basename(p) for p in pre_names}
        while (f"out-{serial}.h5" if serial else "out.h5") in taken or (f"out-{serial}.h5.tmp" if serial else "out.h5.tmp") in taken:
            serial += 1
        expected_name = os.path.join(view.work, f"out-{serial}.h5" if serial else "out.h5")
        H.prove(f"[{tag}] the fresh name is the first free serial name", created == [expected_name])
    # ---- what the run reports -----------------------------------------------------------------------
    fired = st["fired"]
    interrupted = fired and kind == "interrupt" and not (pause and answer == "y")
    resumed = fired and kind == "interrupt" and pause and answer == "y"
    foreign = raised is not None and not isinstance(raised, (Injected, KeyboardInterrupt))
    # (after "continue" at the pause prompt the property says nothing about how the run goes on; an
    # error it then dies of is an error stop like any other and the claims on the files apply to it)
    H.prove(f"[{tag}] no error other than the injected one stops the run, unless the user resumed an interrupted run", (not foreign) or resumed)
    if fired and kind == "exception":
        H.prove(f"[{tag}] an error in the update / frame writer propagates to the caller", raised is not None and isinstance(raised, Injected))
    elif fired and kind == "interrupt" and site == "update":
        H.prove(f"[{tag}] KeyboardInterrupt in the update is a cancellation, it does not escape solve()", raised is None)
    elif not fired:
        H.prove(f"[{tag}] an undisturbed run raises nothing", raised is None)
    if raised is None:
        if interrupted and stage == "Thermalizing" and site == "update":
            H.prove(f"[{tag}] cancelling during thermalisation returns None", solution is None)
        elif st["frames"] == 0:
            H.prove(f"[{tag}] a run that recorded no frame returns None", solution is None)
        else:
            H.prove(f"[{tag}] a usable solution is returned", solution is not None)
    # ---- the output file: closed, readable, exactly the frames written before the stop -----------------------------
    if case.explicit and len(created) == 1:
        path = created[0]
        f = view.open_read(path)
        frames = sorted(int(x) for x in f["data"])
        H.prove(f"[{tag}] frame groups are numbered 0..m-1", frames == list(range(len(frames))))
        H.prove(f"[{tag}] the file holds exactly the frames that were written", len(frames) == st["frames"])
        last = -1
        for idx in frames:
            g = f["data"][str(idx)]
            complete = all(a in g.attrs for a in ("step", "time", "dt")) and all(d in g for d in ("psi", "mu", "supercurrent", "normal_current"))
            H.prove(f"[{tag}] frame {idx} has its bookkeeping intact", complete)
            if complete:
                H.prove(f"[{tag}] frame {idx} steps increase", int(g.attrs["step"]) > last)
                last = int(g.attrs["step"])
        if solution is not None:
            H.prove(f"[{tag}] the returned solution points at the fresh output file", solution.path == path)
            H.prove(f"[{tag}] the returned solution is at the last recorded frame", int(solution.tdgl_data.step) == frames[-1])
            H.prove(f"[{tag}] the fresh file carries the serialised solution", "solution" in f)
        f.close()
