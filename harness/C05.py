"""C05 - Recorded frames, times and per-step records are consistent.

The real `Runner.run/_run_stage`, `RunningState`, `DataHandler` (on an in-memory HDF5 tree),
`DynamicsData.from_hdf5` and `Solution.times` are executed with an opaque update function that
counts updates; step sizes and the solve / thermalisation times are symbolic reals, so every
stopping pattern within the bound is a path.  Oracle: an executable specification below."""
import numpy as np

from symx import core, engine, fakeh5
from symx.engine import Case

from . import common as K
from .solver_setup import NullLogger

ID = "C05"
ENCODED = [
    "tdgl.solver.runner:Runner.run",
    "tdgl.solver.runner:Runner._run_stage",
    "tdgl.solver.runner:RunningState",
    "tdgl.solver.runner:DataHandler.save_time_step",
    "tdgl.solver.runner:DataHandler.__enter__",
    "tdgl.solution.data:DynamicsData.from_hdf5",
    "tdgl.solution.data:get_data_range",
    "tdgl.solution.solution:Solution.times",
]
BOUNDS = {
    "quick": dict(max_steps=3, save_every="1..max_steps+2", probes=[0, 2], thermalisation=[False, True]),
    "thorough": dict(max_steps=7, save_every="1..max_steps+2", probes=[0, 2, 3], thermalisation=[False, True]),
}
ASSUMPTIONS = [
    "update function opaque: returns an arbitrary step size in [1/2, 1] per step (covers fixed and adaptive sequences incl. retries) and counts updates",
    "0 < solve_time <= max_steps/2 (so the run needs at most max_steps steps: unwinding assertion is checked)",
    "HDF5 replaced by an in-memory tree (groups, attrs, datasets); tqdm and logging are no-ops",
    "real-valued clocks (float accumulation of time += dt outside the claim)",
]
OUTSIDE = ["runs longer than the bound", "HDF5 itself", "rounding of the accumulated time"]
TV_SAMPLES = {"quick": 2, "thorough": 2}
MAX_PATHS = {"quick": 4000, "thorough": 40000}


def patch_spec(case):
    if case.params.get("kind") == "stepsize":
        from . import solver_setup as S

        return S.patch_spec()
    fs = fakeh5.FakeFS()
    fs.dirs.add("/work")
    case.params["_fs"] = fs
    spec = engine.std_patch("tdgl.solver.runner", "tdgl.solution.data", "tdgl.solution.solution")
    spec["tdgl.solver.runner"].update(h5py=fakeh5.FakeH5py(fs), tempfile=fakeh5.FakeTempfile(fs), os=fakeh5.FakeOs(fs),
                                      tqdm=fakeh5.FakeTqdm, datetime=fakeh5.FakeDatetime, Path=fakeh5.make_path_class(fs))
    return spec


def cases(tier, seed):
    b = BOUNDS[tier]
    N = b["max_steps"]
    out = []
    for skip in b["thermalisation"]:
        for probes in b["probes"]:
            ks = range(1, N + 3) if (probes == 0 and (tier == "thorough" or not skip)) else (1, 2, N + 1)
            for k in ks:
                out.append(Case(f"run:N<={N}:k={k}:probes={probes}:skip={int(skip)}", N=N, k=k, probes=probes, skip=skip, seed=seed))
    from symx import meshes

    meshes.get_device("bar0", seed)
    out.append(Case("two-runs-one-path:N<=2:k=2:probes=2", N=2, k=2, probes=2, skip=False, seed=seed, rounds=2))
    out.append(Case("reported-step-size", kind="stepsize", seed=seed, R=2 if tier == "quick" else 3))
    return out


def body_stepsize(H, case):
    """the runner adds up the time steps that `update` reports and records: the reported and the recorded
    step must be the one the order parameter was advanced with, also when the kernel refused a few
    tentative steps first (real TDGLSolver.update / adaptive_euler_step; the kernel is scripted)"""
    from . import solver_setup as S

    dev = S.symbolic_device(H, "bar0", case.seed, symbolic_mesh=False)
    ns, ne = len(dev.mesh.sites), len(dev.mesh.edge_mesh.edges)
    dt_init = H.real("dt_init", lo=1e-3, hi=1.0)
    mult = H.real("mult", lo=0.1, hi=0.9)
    opts = S.make_options(dt_init=dt_init, dt_max=1.0, adaptive=True, adaptive_window=1, max_solve_retries=case.R, adaptive_time_step_multiplier=mult)
    solver = S.make_solver(H, dev, opts, validate=False)
    refusals = H.choice("refused tentative steps", list(range(case.R + 1)))
    st = dict(n=0, answered_with=None)

    def fake_kernel(*, psi, abs_sq_psi, mu, epsilon, gamma, u, dt, psi_laplacian):
        st["n"] += 1
        if st["n"] <= refusals:
            return None
        st["answered_with"] = dt
        return psi, abs_sq_psi

    solver.solve_for_psi_squared = fake_kernel
    zed = H.array([0.0] * ne) if H.mode == "sym" else np.zeros(ne)
    mu0 = H.array([0.0] * ns) if H.mode == "sym" else np.zeros(ns)
    solver.solve_for_observables = lambda p, dA_dt: (mu0, zed, zed)
    rs = S.running_state(H, solver, size=4)
    psi = H.array([1.0] * ns) if H.mode == "sym" else np.ones(ns, dtype=complex)
    res = solver.update({"step": 0, "time": 0.0, "dt": dt_init}, rs, dt_init, psi=psi, mu=mu0, supercurrent=zed, normal_current=zed,
                        induced_vector_potential=S.zeros2(H, ne, 2))
    H.prove("the kernel answered", st["answered_with"] is not None)
    H.prove_eq(f"after {refusals} refused tentative steps: the step size update() reports is the one the kernel answered with", res.dt, st["answered_with"])
    rec = rs.values["dt"]
    H.prove_eq(f"after {refusals} refused tentative steps: the recorded step size is the one the kernel answered with", K.at(rec, 0, 0), st["answered_with"])


def body(H, case):
    if case.params.get("kind") == "stepsize":
        return body_stepsize(H, case)
    import tdgl.solver.runner as R
    from tdgl.solution.data import DynamicsData, get_data_range
    from tdgl.solution.solution import Solution
    from tdgl.solver.options import SolverOptions

    rounds = case.params.get("rounds", 1)
    if rounds == 1:
        return _one_run(H, case, 0, R, DynamicsData, get_data_range, Solution, SolverOptions)
    # a history inside one process: run, load, delete the output, run again to the same path, load
    import os
    import shutil
    import tempfile

    fs = case.params.get("_fs")
    if H.mode == "sym":
        fs.files.clear(); fs.dirs.clear(); fs.dirs.add("/work"); fs.open_handles.clear(); fs.log.clear()
        work = "/work"
    else:
        work = tempfile.mkdtemp(prefix="c05-")
    case.params["path"] = work + "/out.h5"
    try:
        for rnd in range(rounds):
            _one_run(_Prefixed(H, f"run {rnd + 1} to the same path: "), case, rnd, R, DynamicsData, get_data_range, Solution, SolverOptions)
            if H.mode == "sym":
                fakeh5.FakeOs(fs).remove(case.params["path"])
            else:
                os.remove(case.params["path"])
    finally:
        if H.mode != "sym":
            shutil.rmtree(work, ignore_errors=True)


class _Prefixed:
    """the harness handle with every claim name prefixed (several rounds inside one case)"""

    def __init__(self, H, prefix):
        self._H, self._p = H, prefix

    def __getattr__(self, k):
        return getattr(self._H, k)

    def prove(self, name, *a, **kw):
        return self._H.prove(self._p + name, *a, **kw)

    def prove_eq(self, name, *a, **kw):
        return self._H.prove_eq(self._p + name, *a, **kw)


def _one_run(H, case, rnd, R, DynamicsData, get_data_range, Solution, SolverOptions):
    sfx = f"_r{rnd}" if rnd else ""
    rtag = f"run {rnd + 1}: " if case.params.get("rounds", 1) > 1 else ""
    N, k, P = case.N, case.k, case.probes
    T = H.real("T" + sfx, lo=0.0, hi=N / 2, lo_open=True)
    Ts = H.real("Ts" + sfx, lo=0.0, hi=N / 2, lo_open=True) if case.skip else 0.0
    dt_init = H.real("dt_init" + sfx, lo=0.5, hi=1.0)
    dts = {"T": [H.real(f"dtT{i}{sfx}", lo=0.5, hi=1.0) for i in range(N + 2)], "S": [H.real(f"dt{i}{sfx}", lo=0.5, hi=1.0) for i in range(N + 2)]}
    mus = [[H.real(f"mu{i}_{p}{sfx}") for p in range(P)] for i in range(N + 2)]
    thetas = [[H.real(f"theta{i}_{p}{sfx}") for p in range(P)] for i in range(N + 2)]
    screen = P > 0 or k == 1  # the record of screening iterations is kept in these configurations
    its = [H.real(f"iters{i}{sfx}", lo=0.0, hi=50.0) for i in range(N + 2)]
    opts = SolverOptions(solve_time=T, skip_time=Ts, dt_init=dt_init, save_every=k, progress_interval=0)
    st = dict(total=0, stage="T" if case.skip else "S", calls={"T": 0, "S": 0}, log=[])

    def update(state, running_state, dt, *, v):
        stage = st["stage"]
        # thermalisation ends when Runner resets the step counter: detect the stage switch
        if stage == "T" and state["step"] == 0 and st["calls"]["T"] > 0:
            stage = st["stage"] = "S"
        i = st["calls"][stage]
        if i > N:
            raise core.UnwindBound(f"more than {N} updates in stage {stage}")
        st["calls"][stage] += 1
        st["total"] += 1
        st["log"].append((stage, state["step"], state["time"], dt, v))
        used = dts[stage][i]
        running_state.append("dt", used)
        if P:
            running_state.append("mu", H.array(mus[i]) if H.mode == "sym" else np.array(mus[i]))
            running_state.append("theta", H.array(thetas[i]) if H.mode == "sym" else np.array(thetas[i]))
        if screen:
            running_state.append("screening_iterations", its[i])
        return (used, v + 1)  # v is a 1-element integer array

    names = {"dt": 1}
    if P:
        names.update(mu=P, theta=P)
    if screen:
        names["screening_iterations"] = 1
    logger = NullLogger()
    out_path = case.params.get("path")
    with R.DataHandler(output_file=out_path, logger=logger) as dh:
        runner = R.Runner(function=update, options=opts, data_handler=dh, initial_values=[np.array([0])], names=["v"],
                          running_names_and_sizes=names, logger=logger)
        ok = runner.run()
        f = dh.output_file
        # ---------------- executable specification ---------------------------------------------
        def stop_step(times_of, limit):
            t = 0.0
            for i in range(N + 2):
                if H.is_true(t >= limit):
                    return i, t
                t = t + times_of[i]
            raise core.UnwindBound("stop step beyond bound")

        nT = 0
        if case.skip:
            nT, _ = stop_step(dts["T"], Ts)
        nS, t_end = stop_step(dts["S"], T)
        H.prove("run() reports that data was generated", ok is True)
        # stop rule and unrecorded thermalisation: exactly nT + nS updates before the final frame
        frame_steps = sorted(set(list(range(0, nS + 1, k)) + [nS]))
        stored = sorted(int(key) for key in f["data"])
        H.prove("frame groups are numbered 0..m-1", stored == list(range(len(frame_steps))))
        if stored != list(range(len(frame_steps))):
            return
        tsum = [0.0]
        for i in range(N + 1):
            tsum.append(tsum[-1] + dts["S"][i])
        for idx, s in enumerate(frame_steps):
            g = f["data"][str(idx)]
            H.prove(f"frame {idx} is labelled step {s}", int(g.attrs["step"]) == s)
            H.prove_eq(f"frame {idx} (step {s}): time = sum of the first {s} time steps", g.attrs["time"], tsum[s])
            val = np.array(g["v"]) if H.mode == "conc" else g["v"][()]
            H.prove(f"frame {idx} (step {s}): holds the state after exactly {s} updates (thermalisation: {nT})", int(np.asarray(val).ravel()[0]) == nT + s)
            if s == 0:
                H.prove("frame 0 has no per-step records", "running_state" not in g)
        H.prove("recorded time restarts from zero", float(f["data"]["0"].attrs["time"]) == 0.0)
        # per-step records through the real loader
        lo, hi = get_data_range(f)
        dyn = DynamicsData.from_hdf5(f, lo, hi)
        rec = K.elems(dyn.dt)
        H.prove(f"per-step dt records: exactly one per step ({nS})", len(rec) == nS)
        if len(rec) == nS:
            for i in range(nS):
                H.prove_eq(f"dt record {i} = step size of step {i}", rec[i], dts["S"][i])
            if P:
                mu = dyn.mu
                H.prove("probe records have one column per step", tuple(np.shape(mu.data if hasattr(mu, "data") else mu)) == (P, nS))
                if tuple(np.shape(mu.data if hasattr(mu, "data") else mu)) == (P, nS):
                    for i in range(nS):
                        for p in range(P):
                            H.prove_eq(f"mu record step {i} probe {p}", K.at(mu, p, i), mus[i][p])
                th = dyn.theta
                H.prove("phase records have one column per step", tuple(np.shape(th.data if hasattr(th, "data") else th)) == (P, nS))
                if tuple(np.shape(th.data if hasattr(th, "data") else th)) == (P, nS):
                    for i in range(nS):
                        for p in range(P):
                            H.prove_eq(f"theta record step {i} probe {p}", K.at(th, p, i), thetas[i][p])
            else:
                H.prove("no probe records without probes", dyn.mu is None and dyn.theta is None)
            if screen:
                si = dyn.screening_iterations
                H.prove(f"screening-iteration records: exactly one per step ({nS})", si is not None and len(K.elems(si)) == nS)
                if si is not None and len(K.elems(si)) == nS:
                    for i in range(nS):
                        H.prove_eq(f"screening-iteration record {i} = iterations of step {i}", K.elems(si)[i], its[i])
            else:
                H.prove("no screening-iteration records when none were kept", dyn.screening_iterations is None)
        # times reported by the loaded solution are the frame times
        from types import SimpleNamespace

        fake_solution = SimpleNamespace(dynamics=dyn, options=SimpleNamespace(save_every=k))
        times = K.elems(Solution.times.fget(fake_solution))
        H.prove("Solution.times has one entry per frame", len(times) == len(frame_steps))
        if len(times) == len(frame_steps):
            for idx, s in enumerate(frame_steps):
                H.prove_eq(f"Solution.times[{idx}] = time of frame {idx}", times[idx], tsum[s])
