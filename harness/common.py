"""Helpers shared by harness bodies; every helper works on symbolic (SA/SM/Sc) and on concrete
(numpy/scipy) values alike, so that one body serves the symbolic run and the concrete replay."""
from fractions import Fraction

import numpy as np

from symx.arr import SA, SM
from symx.core import Sc


def entry(M, i, j):
    if isinstance(M, SM):
        return M.get(int(i), int(j))
    return M[int(i), int(j)]


def pattern(M):
    """Structural pattern (stored positions) of a sparse matrix, as a sorted list."""
    if isinstance(M, SM):
        return M.pattern()
    C = M.tocoo()
    return sorted(set(zip(C.row.tolist(), C.col.tolist())))


def elems(x):
    """Flat python list of the elements of a 1-d array."""
    if isinstance(x, SA):
        return list(x.data.ravel())
    return list(np.asarray(x).ravel())


def at(x, *idx):
    if isinstance(x, SA):
        return x.data[idx]
    return np.asarray(x)[idx]


def total(vals):
    vals = list(vals)
    acc = 0.0
    for v in vals:
        acc = acc + v
    return acc


def conj(x):
    if isinstance(x, (Sc, SA)):
        return x.conjugate()
    return np.conj(x)


def re(x):
    return x.real


def im(x):
    return x.imag


def connected(n, edges):
    adj = {i: set() for i in range(n)}
    for a, b in edges:
        adj[int(a)].add(int(b))
        adj[int(b)].add(int(a))
    seen, todo = {0}, [0]
    while todo:
        for v in adj[todo.pop()]:
            if v not in seen:
                seen.add(v)
                todo.append(v)
    return len(seen) == n


def link_exponents_for(H, mesh, thetas):
    """Vector potential (n_edges x 2) such that A_e . d_e == theta_e exactly (d_e concrete)."""
    d = mesh.edge_mesh.directions
    rows = []
    for e in range(len(d)):
        dx, dy = Fraction(float(d[e, 0])), Fraction(float(d[e, 1]))
        n2 = dx * dx + dy * dy
        th = at(thetas, e)
        if H.mode == "sym":
            rows.append([th * (dx / n2), th * (dy / n2)])
        else:
            rows.append([th * float(dx / n2), th * float(dy / n2)])
    return H.array2(rows)
