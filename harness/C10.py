"""C10 - Refreshing link variables in place equals rebuilding the operators.

(1) operator level: a history A_1..A_m of fully symbolic potentials is pushed through the real
`MeshOperators.set_link_exponents` (first call builds, later calls refresh in place); after
every prefix the gradient and Laplacian (values and structural pattern) must equal those of a
fresh instance given the last potential - for no pinned sites, pinned terminals, and
terminals with pinning disabled.
(2) step level: the real `TDGLSolver.update` is run with a scripted time-dependent applied
potential (and, with screening, scripted induced potentials); at the moment the operators are
*used* (the psi-update of each screening iteration) they must equal a rebuild for the potential
of that moment - this covers the refresh triggers in `update`."""
import numpy as np

from symx import engine, meshes
from symx.engine import Case

from . import common as K
from . import solver_setup as S

ID = "C10"
ENCODED = [
    "tdgl.finite_volume.operators:MeshOperators.__init__",
    "tdgl.finite_volume.operators:MeshOperators.set_link_exponents",
    "tdgl.finite_volume.operators:_spmatrix_set_many",
    "tdgl.finite_volume.operators:build_gradient",
    "tdgl.finite_volume.operators:build_laplacian",
    "tdgl.solver.solver:TDGLSolver.__init__",
    "tdgl.solver.solver:TDGLSolver.update",
    "tdgl.solver.solver:TDGLSolver.update_applied_vector_potential",
]
BOUNDS = {
    "quick": dict(meshes=["T2", "F5", "device:bar2"], history_length=2, update_steps=2, polyak_iterations=2),
    "thorough": dict(meshes=["T2", "F5", "F7", "G9", "R8", "device:bar2", "device:bar3"], history_length=3, update_steps=3, polyak_iterations=3),
}
ASSUMPTIONS = [
    "potentials are arbitrary real arrays (link phases are arbitrary unit-circle pairs; equal phase terms share one pair)",
    "scipy sparse __setitem__ modelled: overwrites stored entries, inserts missing ones",
    "step level: psi-update and Poisson solve are opaque (arbitrary outputs); the induced potential of each Polyak iteration is arbitrary",
    "the refreshed state is a function of the structure and the last potential only, so histories longer than the bound follow by induction",
]
OUTSIDE = ["cupy code path", "histories longer than the bound (inductive argument)", "rounding"]
TV_SAMPLES = {"quick": 2, "thorough": 2}
FEASIBILITY = "linear"
PHASE_AXIOMS = True


def patch_spec(case):
    return S.patch_spec()


def cases(tier, seed):
    b = BOUNDS[tier]
    meshes.warm(b["meshes"], seed)
    out = []
    for n in b["meshes"]:
        for fm in ("none", "pinned", "unpinned"):
            out.append(Case(f"hist:{n}:{fm}", kind="hist", mesh=n, fixmode=fm, m=b["history_length"], seed=seed))
    meshes.get_device("bar2", seed)
    out.append(Case("update:bar2", kind="update", screening=False, steps=b["update_steps"], seed=seed))
    out.append(Case("update-screening:bar2", kind="update", screening=True, steps=2, iters=b["polyak_iterations"], seed=seed))
    return out


def compare(H, label, mo, ref, entrywise=True):
    for nm in ("psi_gradient", "psi_laplacian"):
        M, R = getattr(mo, nm), getattr(ref, nm)
        pm, pr = K.pattern(M), K.pattern(R)
        H.prove(f"{label}: {nm} pattern = rebuilt", pm == pr)
        keys = sorted(set(pm) | set(pr))
        if entrywise:
            for (i, j) in keys:
                H.prove_eq(f"{label}: {nm}[{i},{j}]", K.entry(M, i, j), K.entry(R, i, j))
        else:
            H.prove_conj_eq(f"{label}: {nm} = rebuilt", [(K.entry(M, i, j), K.entry(R, i, j)) for (i, j) in keys])


def sym_potential(H, mesh, tag):
    ne = len(mesh.edge_mesh.edges)
    return H.reals2(f"A{tag}_", ne, 2, lo=-2.0, hi=2.0)


def body(H, case):
    if case.kind == "update":
        return body_update(H, case)
    import tdgl.finite_volume.operators as ops
    from tdgl.solver.options import SparseSolver

    mesh = meshes.symbolise(meshes.get(case.mesh, case.seed), H)
    bidx = sorted(set(mesh.boundary_indices.tolist()))
    fixed = np.array(bidx[:2], dtype=np.int64)
    kw = dict(none=dict(fixed_sites=np.array([], dtype=np.int64), fix_psi=True),
              pinned=dict(fixed_sites=fixed, fix_psi=True),
              unpinned=dict(fixed_sites=fixed, fix_psi=False))[case.fixmode]
    mo = ops.MeshOperators(mesh, SparseSolver.SUPERLU, **kw)
    hist = [sym_potential(H, mesh, k) for k in range(case.m)]
    # histories include repeats and zeros as instances of fully symbolic potentials; add an explicit
    # repeat and an explicit zero potential at the end
    hist = hist + [hist[0], hist[0] * 0.0]
    for k, Ak in enumerate(hist):
        mo.set_link_exponents(Ak)
        ref = ops.MeshOperators(mesh, SparseSolver.SUPERLU, **kw)
        ref.set_link_exponents(Ak)
        compare(H, f"after {k + 1} updates", mo, ref)
        LE = mo.link_exponents
        H.prove_all_eq(f"after {k + 1} updates: link_exponents = latest", LE.ravel() if hasattr(LE, "ravel") else LE, Ak.ravel())


def body_update(H, case):
    import tdgl.finite_volume.operators as ops
    from tdgl.solver.options import SparseSolver

    dev = S.symbolic_device(H, "bar2", case.seed)
    mesh = dev.mesh
    ns, ne = len(mesh.sites), len(mesh.edge_mesh.edges)
    nsteps = case.steps

    def A3(tag):
        a = H.reals2(f"A{tag}_", ne, 2, lo=-2.0, hi=2.0)
        z = S.zeros2(H, ne, 1)
        from symx.arr import concatenate

        return concatenate([a, z], axis=1) if H.mode == "sym" else np.concatenate([a, z], axis=1)

    script = [A3(k) for k in range(nsteps + 1)]
    pot = S.ScriptedPotential(H, script)
    opts = S.make_options(dt_init=0.01, dt_max=0.01, adaptive=False, include_screening=bool(case.screening),
                          max_iterations_per_step=case.params.get("iters", 2), screening_tolerance=1e-3)
    solver = S.make_solver(H, dev, opts, A=pot.make_parameter(), currents=None)
    fixed = solver.operators.fixed_sites
    uses = []
    state = dict(k=0, induced=None)

    def expected_now():
        a = solver.A_scale * script[min(state["k"], nsteps)][:, :2]
        if case.screening:
            a = a + state["induced"]
        return a

    def fake_euler(step, psi, abs_sq_psi, mu, epsilon, dt):
        ref = ops.MeshOperators(mesh, SparseSolver.SUPERLU, fixed_sites=fixed, fix_psi=True)
        ref.set_link_exponents(expected_now())
        compare(H, f"step {state['k']} use {len(uses)}", solver.operators, ref, entrywise=False)
        uses.append(state["k"])
        return psi, abs_sq_psi, dt

    def fake_observables(psi, dA_dt):
        z = H.array([0.0] * ne) if H.mode == "sym" else np.zeros(ne)
        return mu0, z, z

    it = dict(n=0)

    def fake_induced(current_density, A_induced_vals, velocity):
        it["n"] += 1
        newA = H.reals2(f"Aind{state['k']}_{it['n']}_", ne, 2, lo=-1.0, hi=1.0)
        A_induced_vals.append(newA)
        state["induced"] = newA
        err = H.real(f"err{state['k']}_{it['n']}", nonneg=True)
        return newA, err

    solver.adaptive_euler_step = fake_euler
    solver.solve_for_observables = fake_observables
    solver.get_induced_vector_potential = fake_induced
    rs = S.running_state(H, solver)
    psi0 = H.cplxs("p", ns)
    mu0 = H.reals("m", ns)
    ind = S.zeros2(H, ne, 2)
    state["induced"] = ind
    A_prev = solver.current_A_applied
    for k in range(1, nsteps + 1):
        state["k"] = k
        it["n"] = 0
        try:
            res = solver.update({"step": k, "time": 0.01 * k, "dt": 0.01}, rs, 0.01, psi=psi0, mu=mu0,
                                supercurrent=None, normal_current=None, induced_vector_potential=state["induced"],
                                applied_vector_potential=A_prev)
        except RuntimeError as e:
            if "Screening calculation failed to converge" in str(e):
                return  # documented failure mode (C13); the operators were checked at every use before it
            raise
        A_prev = res.A_applied
        state["induced"] = res.A_induced
    H.prove("operators were used at every step", sorted(set(uses)) == list(range(1, nsteps + 1)))
