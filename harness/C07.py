"""C07 - Mesh geometry is the Delaunay/Voronoi dual of the device domain (partial).

With *symbolic site coordinates* on fixed patches (two triangles sharing an edge, an interior
fan, a boundary fan) the real `generate_voronoi_vertices`, `EdgeMesh.from_mesh`,
`get_dual_edge_lengths`, `get_edges` and `triangle_areas` are executed: circumcentres are
equidistant from the three vertices of their triangle; the dual length of an interior edge is
the distance of the two adjacent circumcentres, of a boundary edge the distance from the
circumcentre to the edge midpoint; edge vectors, lengths and centres are those of the site
pairs; triangle areas are the signed areas.  Boundary edges are exactly those in one triangle
and V - E + T = 1 - holes on the concrete meshes of the family and of real `Device.make_mesh`.
Cell areas (`compute_voronoi_polygon_areas`: qhull convex hulls, arctan2 ordering) and the
constrained triangulation itself (Triangle) are outside the claim."""
import numpy as np

from symx import engine, meshes
from symx.engine import Case

from . import common as K

ID = "C07"
ENCODED = [
    "tdgl.finite_volume.util:generate_voronoi_vertices",
    "tdgl.finite_volume.util:get_dual_edge_lengths",
    "tdgl.finite_volume.util:get_edges",
    "tdgl.finite_volume.util:triangle_areas",
    "tdgl.finite_volume.util:make_adj_directed_tri_indices",
    "tdgl.finite_volume.edge_mesh:EdgeMesh.from_mesh",
    "tdgl.finite_volume.mesh:Mesh.find_boundary_indices",
]
BOUNDS = {
    "quick": dict(patches=["T2", "F5"], coordinates="each site within +-0.1 of its nominal position (orientation preserved)", topology_meshes=["T2", "F5", "F7", "G9", "R8", "device:bar2", "device:holed"]),
    "thorough": dict(patches=["T2", "F5", "F7", "R8"], coordinates="each site within +-0.1 of its nominal position", topology_meshes=["T2", "F5", "F7", "G9", "R8", "device:bar2", "device:holed", "device:tee3", "device:cross4"]),
}
ASSUMPTIONS = [
    "topology of the patch concrete; site coordinates symbolic in a box that preserves orientation and non-degeneracy (checked: triangle areas > 0 is an obligation)",
    "exact real arithmetic",
]
OUTSIDE = [
    "cell areas = clipped Voronoi regions (compute_voronoi_polygon_areas: qhull ConvexHull and arctan2 ordering are not encodable without a hull model)",
    "the constrained triangulation itself (Triangle, C), exact tiling of the domain, smoothing",
    "terminal-length tolerance (matplotlib Path membership, C++)",
]
MERGE = True
DEFAULT_SLICE = True
ABSTRACT_DIV = True  # circumcentre coordinates become definitional quotient variables (keeps identities polynomial)
TV_SAMPLES = {"quick": 2, "thorough": 2}


def patch_spec(case):
    return engine.std_patch("tdgl.finite_volume.util", "tdgl.finite_volume.edge_mesh", "tdgl.finite_volume.mesh")


def cases(tier, seed):
    b = BOUNDS[tier]
    out = [Case(f"patch:{p}", kind="patch", mesh=p, seed=seed) for p in b["patches"]]
    for m in b["topology_meshes"]:
        try:
            meshes.warm([m], seed)
            out.append(Case(f"topology:{m}", kind="topology", mesh=m, seed=seed))
        except Exception as e:  # the real mesh construction itself fails: reported by the topology case
            out.append(Case(f"topology:{m}", kind="broken", mesh=m, seed=seed, error=f"{type(e).__name__}: {e}"[:200]))
    return out


def body(H, case):
    if case.kind == "broken":
        raise engine.HarnessError(f"the real Mesh.from_triangulation fails on {case.mesh}: {case.error}")
    return body_patch(H, case) if case.kind == "patch" else body_topology(H, case)


def body_patch(H, case):
    from tdgl.finite_volume.edge_mesh import EdgeMesh
    from tdgl.finite_volume.util import generate_voronoi_vertices, get_edges, triangle_areas

    pts, tris = meshes.coords(case.mesh, case.seed)
    for t in tris:  # counter-clockwise
        a, b, c = pts[t]
        if (b[0] - a[0]) * (c[1] - a[1]) - (b[1] - a[1]) * (c[0] - a[0]) < 0:
            t[1], t[2] = t[2], t[1]
    n = len(pts)
    sites = H.array2([[H.real(f"x{i}", lo=float(pts[i, 0]) - 0.1, hi=float(pts[i, 0]) + 0.1), H.real(f"y{i}", lo=float(pts[i, 1]) - 0.1, hi=float(pts[i, 1]) + 0.1)] for i in range(n)])
    cc = generate_voronoi_vertices(sites, tris)
    for t, tri in enumerate(tris):
        d2 = [(K.at(cc, t, 0) - K.at(sites, int(v), 0)) ** 2 + (K.at(cc, t, 1) - K.at(sites, int(v), 1)) ** 2 for v in tri]
        H.prove_eq(f"triangle {t}: circumcentre equidistant from vertices 0 and 1", d2[0], d2[1])
        H.prove_eq(f"triangle {t}: circumcentre equidistant from vertices 0 and 2", d2[0], d2[2])
    ta = K.elems(triangle_areas(sites, tris))
    for t, tri in enumerate(tris):
        (x0, y0), (x1, y1), (x2, y2) = [(K.at(sites, int(v), 0), K.at(sites, int(v), 1)) for v in tri]
        H.prove_eq(f"triangle {t}: area = signed area of its vertices", ta[t], ((x1 - x0) * (y2 - y0) - (y1 - y0) * (x2 - x0)) / 2)
        H.prove(f"triangle {t}: positively oriented and non-degenerate in the whole box", ta[t] > 0)
    em = EdgeMesh.from_mesh(sites, tris, cc)
    edges, is_b = get_edges(tris)
    tri_of = {}
    for t, tri in enumerate(tris):
        for a, b in ((tri[0], tri[1]), (tri[1], tri[2]), (tri[2], tri[0])):
            tri_of.setdefault((min(int(a), int(b)), max(int(a), int(b))), []).append(t)
    H.prove("edge list = the unique site pairs of the triangles", sorted(map(tuple, np.asarray(em.edges).tolist())) == sorted(tri_of))
    for e, (i, j) in enumerate(np.asarray(em.edges)):
        i, j = int(i), int(j)
        dx = K.at(sites, j, 0) - K.at(sites, i, 0)
        dy = K.at(sites, j, 1) - K.at(sites, i, 1)
        H.prove_eq(f"edge {e}: direction x", K.at(em.directions, e, 0), dx)
        H.prove_eq(f"edge {e}: direction y", K.at(em.directions, e, 1), dy)
        H.prove_eq(f"edge {e}: length^2", K.at(em.edge_lengths, e) ** 2, dx * dx + dy * dy)
        H.prove_eq(f"edge {e}: centre x", K.at(em.centers, e, 0), (K.at(sites, i, 0) + K.at(sites, j, 0)) / 2)
        H.prove_eq(f"edge {e}: centre y", K.at(em.centers, e, 1), (K.at(sites, i, 1) + K.at(sites, j, 1)) / 2)
        ts = tri_of[(min(i, j), max(i, j))]
        boundary = len(ts) == 1
        H.prove(f"edge {e}: boundary flag = 'in exactly one triangle'", (e in set(np.asarray(em.boundary_edge_indices).tolist())) == boundary)
        if boundary:
            mx, my = (K.at(sites, i, 0) + K.at(sites, j, 0)) / 2, (K.at(sites, i, 1) + K.at(sites, j, 1)) / 2
            want = (K.at(cc, ts[0], 0) - mx) ** 2 + (K.at(cc, ts[0], 1) - my) ** 2
        else:
            want = (K.at(cc, ts[0], 0) - K.at(cc, ts[1], 0)) ** 2 + (K.at(cc, ts[0], 1) - K.at(cc, ts[1], 1)) ** 2
        H.prove_eq(f"edge {e}: dual length^2 = {'circumcentre-to-midpoint' if boundary else 'circumcentre-to-circumcentre'} distance^2", K.at(em.dual_edge_lengths, e) ** 2, want, timeout=120)
        H.prove(f"edge {e}: dual length >= 0", K.at(em.dual_edge_lengths, e) >= 0)


def body_topology(H, case):
    from tdgl.finite_volume.mesh import Mesh
    from tdgl.finite_volume.util import get_edges

    mesh = meshes.get(case.mesh, case.seed)
    tris = mesh.elements
    V, T = len(mesh.sites), len(tris)
    edges, is_b = get_edges(tris)
    count = {}
    for tri in tris:
        for a, b in ((tri[0], tri[1]), (tri[1], tri[2]), (tri[2], tri[0])):
            k = (min(int(a), int(b)), max(int(a), int(b)))
            count[k] = count.get(k, 0) + 1
    H.prove("edges are the sorted unique site pairs", [tuple(map(int, e)) for e in edges] == sorted(count))
    H.prove("boundary edges are exactly those in one triangle", [bool(x) for x in is_b] == [count[tuple(map(int, e))] == 1 for e in edges])
    H.prove("no edge is shared by more than two triangles", max(count.values()) <= 2)
    bsites = sorted({v for (e, c) in count.items() if c == 1 for v in e})
    H.prove("boundary sites are the end points of boundary edges", sorted(Mesh.find_boundary_indices(tris).tolist()) == bsites)
    H.prove("stored boundary indices agree", sorted(np.asarray(mesh.boundary_indices).tolist()) == bsites)
    # number of boundary loops - 1 = number of holes
    adj = {}
    for (a, b), c in count.items():
        if c == 1:
            adj.setdefault(a, []).append(b)
            adj.setdefault(b, []).append(a)
    seen, loops = set(), 0
    for s in adj:
        if s in seen:
            continue
        loops += 1
        todo = [s]
        while todo:
            v = todo.pop()
            if v in seen:
                continue
            seen.add(v)
            todo.extend(adj[v])
    H.prove("every boundary site has exactly two boundary edges", all(len(v) == 2 for v in adj.values()))
    H.prove(f"Euler characteristic V - E + T = 1 - holes ({loops - 1} holes)", V - len(edges) + T == 1 - (loops - 1))
    from tdgl.finite_volume.util import triangle_areas

    H.prove("all triangles positively oriented and non-degenerate", bool((triangle_areas(mesh.sites, tris) > 0).all()))
    H.prove("edge mesh uses the same edges", np.array_equal(np.asarray(mesh.edge_mesh.edges), edges))
