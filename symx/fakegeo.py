"""Vertex-level model of the parts of shapely / matplotlib.path that tdgl.device.polygon and
tdgl.device.device call (symbolic runs of C18).

What is modelled exactly (over the reals): a polygon is its closed exterior ring; `orient` reverses a
ring whose shoelace area is negative; `affinity.rotate / translate / scale` map every vertex by the
documented affine map (rotation by `exp(i angle)` through the engine's phase algebra; origin a point,
'center' or 'centroid'); `area` is the shoelace area; `centroid` the area centroid.

What is *uninterpreted* (the work of GEOS / Agg, outside every claim): validity (assumed true), the
vertex list of a union / intersection / difference (fresh symbolic vertices) and point membership
(a Boolean variable per (region, query point, sign of the margin)); the region of a set-operation
result is recorded as the Boolean combination of its operands' regions, so that the *glue* of
tdgl's n-ary `union / intersection / difference`, of the operators `+ - *` and of
`Device.contains_points` can be decided."""
import numpy as _np
import z3

from . import core as C
from .arr import SA
from .core import CTX, Sc, SymBool


def _sc(x):
    return x if isinstance(x, Sc) else Sc.of(x)


def _rows(obj):
    """list of (x, y) Sc pairs from whatever tdgl hands to shapely"""
    if isinstance(obj, (ModelPolygon, ModelRing)):
        return list(obj._ring)
    if isinstance(obj, SA):
        d = obj.data
    else:
        d = _np.asarray(obj, dtype=object)
    if d.ndim != 2 or d.shape[1] != 2:
        raise ValueError(f"A polygon needs an (n, 2) array of coordinates, got {d.shape}")
    return [(_sc(d[i, 0]), _sc(d[i, 1])) for i in range(d.shape[0])]


def _same(a, b):
    return str(a[0].re) == str(b[0].re) and str(a[1].re) == str(b[1].re)


def _key(ring):
    return "|".join(f"{p[0].re}, {p[1].re}" for p in ring)


class World:
    """registry: ring (by its terms) -> region expression (z3 Bool over base-region variables)"""

    def __init__(self):
        self.regions = {}
        self.fresh = 0
        self.points = {}
        self.inside = set()  # (key of inner ring, key of outer ring): declared by the harness
        self.invalid = set()  # keys of rings that GEOS would call invalid (self-intersecting): declared by the harness
        self.disjoint = set()  # frozenset of two ring keys: declared by the harness

    def region_of(self, ring, qkey, sign):
        """membership of query point `qkey` in the region bounded by `ring`"""
        k = _key(_canon(ring))
        if k not in self.regions:
            self.fresh += 1
            self.regions[k] = ("base", f"R{self.fresh}")
        return self._eval(self.regions[k], qkey, sign)

    def _eval(self, reg, qkey, sign):
        if reg[0] == "base":
            return z3.Bool(f"in!{reg[1]}!{qkey}!{sign}")
        op, a, b = reg
        ea, eb = self._eval(a, qkey, sign), self._eval(b, qkey, sign)
        return {"union": z3.Or(ea, eb), "intersection": z3.And(ea, eb), "difference": z3.And(ea, z3.Not(eb))}[op]

    def reg(self, ring):
        k = _key(_canon(ring))
        if k not in self.regions:
            self.fresh += 1
            self.regions[k] = ("base", f"R{self.fresh}")
        return self.regions[k]


WORLD = World()


def mark_inside(inner_points, outer_points):
    """harness declaration: the polygon with vertices `inner_points` lies strictly inside the other one"""
    WORLD.inside.add((_key(_canon(_rows(inner_points))), _key(_canon(_rows(outer_points)))))


def mark_invalid(points):
    """harness declaration: GEOS' validity verdict for the ring with these vertices is 'invalid'
    (e.g. a self-intersecting bow-tie); every concrete replay asks the real library"""
    WORLD.invalid.add(_key(_canon(_rows(points))))


def mark_disjoint(a_points, b_points):
    """harness declaration: the two polygons have no point in common"""
    WORLD.disjoint.add(frozenset((_key(_canon(_rows(a_points))), _key(_canon(_rows(b_points))))))


def reset():
    global WORLD
    WORLD = World()
    return WORLD


def _canon(ring):
    """a region does not depend on the starting vertex, the direction or the closing point: canonical
    form = open ring, starting at its lexicographically smallest term, in the direction whose second
    element is smaller"""
    r = list(ring)
    if len(r) > 1 and _same(r[0], r[-1]):
        r = r[:-1]
    if not r:
        return r
    ks = [f"{p[0].re}, {p[1].re}" for p in r]
    i = ks.index(min(ks))
    fwd = r[i:] + r[:i]
    bwd = [fwd[0]] + fwd[1:][::-1]
    kf, kb = _key(fwd), _key(bwd)
    return fwd if kf <= kb else bwd


def shoelace(ring):
    a = Sc.of(0.0)
    for (x0, y0), (x1, y1) in zip(ring[:-1], ring[1:]):
        a = a + (x0 * y1 - x1 * y0)
    return a * 0.5


class _Coords:
    def __init__(self, ring):
        self._ring = ring

    def __array__(self, dtype=None, copy=None):
        raise C.Unsupported("coords of a symbolic ring converted by real numpy")

    def __len__(self):
        return len(self._ring)

    def __iter__(self):
        return iter(self._ring)

    def __getitem__(self, k):
        return self._ring[k]

    def sym_value(self):
        a = _np.empty((len(self._ring), 2), dtype=object)
        for i, (x, y) in enumerate(self._ring):
            a[i, 0], a[i, 1] = x, y
        return SA(a)


class ModelRing:
    def __init__(self, ring):
        self._ring = list(ring)
        self.coords = _Coords(self._ring)

    @property
    def is_ccw(self):
        return bool(shoelace(self._ring) > 0)


class ModelLineString(ModelRing):
    pass


class ModelPolygon:
    """closed exterior ring, no interiors"""

    def __init__(self, shell=None, holes=None):
        if isinstance(shell, _Coords):
            shell = _ring_array(list(shell))
        elif isinstance(shell, list) and shell and isinstance(shell[0], tuple):
            shell = _ring_array(shell)
        ring = _rows(shell)
        if len(ring) < 3:
            raise ValueError("A linearring requires at least 4 coordinates.")
        if not _same(ring[0], ring[-1]):
            ring = ring + [ring[0]]
        self._ring = ring
        self.exterior = ModelRing(ring)
        self.interiors = [ModelRing(_rows(h)) for h in (holes or [])]
        self.is_empty = False
        if isinstance(shell, ModelPolygon):
            # Polygon(polygon) is the same geometry, interior rings included
            self.interiors = list(shell.interiors)
            if getattr(shell, "_ccw_known", False):
                self._ccw_known = True

    @property
    def is_valid(self):
        # validity is GEOS' verdict: assumed unless the harness declared this ring invalid (listed in the evidence)
        return _key(_canon(self._ring)) not in WORLD.invalid

    @property
    def area(self):
        return abs(shoelace(self._ring))

    @property
    def centroid(self):
        a = cx = cy = Sc.of(0.0)
        for (x0, y0), (x1, y1) in zip(self._ring[:-1], self._ring[1:]):
            w = x0 * y1 - x1 * y0
            a, cx, cy = a + w, cx + (x0 + x1) * w, cy + (y0 + y1) * w
        return ModelPoint((cx / (3 * a), cy / (3 * a)))

    @property
    def bounds(self):
        from . import arr

        xs, ys = SA(_np.array([p[0] for p in self._ring[:-1]], dtype=object)), SA(_np.array([p[1] for p in self._ring[:-1]], dtype=object))
        return (arr.min_(xs), arr.min_(ys), arr.max_(xs), arr.max_(ys))

    def _setop(self, other, op):
        if not isinstance(other, ModelPolygon):
            raise TypeError(type(other))
        n = 3
        WORLD.fresh += 1
        tag = WORLD.fresh
        ring = []
        for i in range(n):
            ring.append((Sc(z3.Real(f"setop{tag}_x{i}")), Sc(z3.Real(f"setop{tag}_y{i}"))))
        if frozenset((_key(_canon(self._ring)), _key(_canon(other._ring)))) in WORLD.disjoint:
            # GEOS: the union of two disjoint polygons is a MultiPolygon, their intersection an empty polygon
            if op == "union":
                return ModelMulti()
            if op == "intersection":
                res = ModelPolygon(_ring_array(ring))
                res.is_empty = True
                return res
            return self
        if op == "difference" and (_key(_canon(other._ring)), _key(_canon(self._ring))) in WORLD.inside:
            # the subtrahend lies strictly inside: the result is the minuend's outline with an interior ring
            # (its exterior in whatever orientation the library chooses: not assumed)
            res = ModelPolygon(_ring_array(ring), holes=[_ring_array(other._ring)])
            WORLD.regions[_key(_canon(res._ring))] = (op, WORLD.reg(self._ring), WORLD.reg(other._ring))
            return res
        res = ModelPolygon(_ring_array(ring))
        res._ccw_known = True
        # the unknown result ring is taken counter-clockwise (what orient() would make of it; the reversal
        # branch of the setter is exercised by the storage cases)
        CTX.add_path_assume((shoelace(res._ring) > 0).e)
        WORLD.regions[_key(_canon(res._ring))] = (op, WORLD.reg(self._ring), WORLD.reg(other._ring))
        return res

    def union(self, other):
        return self._setop(other, "union")

    def intersection(self, other):
        return self._setop(other, "intersection")

    def difference(self, other):
        return self._setop(other, "difference")

    def buffer(self, *a, **k):
        raise C.Unsupported("shapely buffer (GEOS)")


class ModelMulti:
    """a geometry that is not a single polygon (MultiPolygon / GeometryCollection)"""

    is_empty = False
    is_valid = True


def _ring_array(ring):
    a = _np.empty((len(ring), 2), dtype=object)
    for i, (x, y) in enumerate(ring):
        a[i, 0], a[i, 1] = x, y
    return SA(a)


class ModelPoint:
    def __init__(self, xy, *rest):
        if rest:
            xy = (xy,) + tuple(rest)
        if isinstance(xy, SA):
            xy = list(xy.data.ravel())
        xy = list(xy)
        self.x, self.y = _sc(xy[0]), _sc(xy[1])
        self.coords = _PointCoords(self.x, self.y)


class _PointCoords:
    def __init__(self, x, y):
        self._xy = (x, y)

    def __getitem__(self, k):
        return (self._xy,)[k]

    def __len__(self):
        return 1

    def __iter__(self):
        return iter([self._xy])

    def sym_value(self):
        a = _np.empty((1, 2), dtype=object)
        a[0, 0], a[0, 1] = self._xy
        return SA(a)


def orient(polygon, sign=1.0):
    """shapely.geometry.polygon.orient: exterior counter-clockwise for sign > 0"""
    if getattr(polygon, "_ccw_known", False):
        return polygon
    a = shoelace(polygon._ring)
    neg = (a < 0) if sign >= 0 else (a > 0)
    if neg:
        return ModelPolygon(_ring_array(polygon._ring[::-1]), holes=[_ring_array(r._ring) for r in polygon.interiors])
    return polygon


def explain_validity(p):
    return "Valid Geometry"


def _origin(geom, origin):
    if isinstance(origin, str):
        if origin == "centroid":
            c = geom.centroid
            return c.x, c.y
        if origin == "center":
            x0, y0, x1, y1 = geom.bounds
            return (_sc(x0) + _sc(x1)) * 0.5, (_sc(y0) + _sc(y1)) * 0.5
        raise ValueError(f"'origin' keyword {origin!r} is not recognized")
    if isinstance(origin, ModelPoint):
        return origin.x, origin.y
    if len(origin) not in (2, 3):
        raise ValueError("Expected number of items in 'origin' to be either 2 or 3")
    return _sc(origin[0]), _sc(origin[1])


def _map(geom, f):
    if isinstance(geom, ModelPoint):
        return ModelPoint(f(geom.x, geom.y))
    if isinstance(geom, ModelPolygon):
        return ModelPolygon(_ring_array([f(x, y) for (x, y) in geom._ring]))
    raise C.Unsupported(f"affine map of {type(geom).__name__}")


class Affinity:
    @staticmethod
    def rotate(geom, angle, origin="center", use_radians=False):
        import math

        ang = _sc(angle)
        if not use_radians:
            ang = ang * (math.pi / 180.0)
        u = C.exp_i(ang.re)
        c, s = Sc(u.re), Sc(u.im)
        ox, oy = _origin(geom, origin)
        return _map(geom, lambda x, y: (ox + c * (x - ox) - s * (y - oy), oy + s * (x - ox) + c * (y - oy)))

    @staticmethod
    def translate(geom, xoff=0.0, yoff=0.0, zoff=0.0):
        dx, dy = _sc(xoff), _sc(yoff)
        return _map(geom, lambda x, y: (x + dx, y + dy))

    @staticmethod
    def scale(geom, xfact=1.0, yfact=1.0, zfact=1.0, origin="center"):
        fx, fy = _sc(xfact), _sc(yfact)
        ox, oy = _origin(geom, origin)
        return _map(geom, lambda x, y: (ox + fx * (x - ox), oy + fy * (y - oy)))


class _JoinStyle:
    round, mitre, bevel = 1, 2, 3


class _Sub:
    def __init__(self, **k):
        self.__dict__.update(k)


class Geo:
    """stand-in for `shapely.geometry` as imported by tdgl.device.polygon (`geo`)"""

    polygon = _Sub(Polygon=ModelPolygon, LinearRing=ModelRing, orient=staticmethod(orient))
    linestring = _Sub(LineString=ModelLineString)
    JOIN_STYLE = _JoinStyle
    Polygon = ModelPolygon
    Point = ModelPoint


Geo.polygon.orient = orient


class ModelPath:
    """matplotlib.path.Path(points, closed=True): membership is uninterpreted"""

    def __init__(self, vertices, codes=None, closed=False, **k):
        self._ring = _rows(vertices)
        self.vertices = vertices

    def contains_points(self, points, transform=None, radius=0.0):
        pts = points.data if isinstance(points, SA) else _np.asarray(points, dtype=object)
        if pts.ndim != 2 or pts.shape[1] != 2:
            raise ValueError("Argument 'points' must be an (N, 2) array")
        r = _sc(radius)
        rs = str(z3.simplify(r.re))
        sign = "0" if rs in ("0", "0.0") else ("+" if rs[0] != "-" and not rs.startswith("(- ") else "-")
        if sign != "0":
            sign += rs.lstrip("-( ").rstrip(")")
        out = _np.empty(pts.shape[0], dtype=object)
        for j in range(pts.shape[0]):
            qkey = f"{_sc(pts[j, 0]).re},{_sc(pts[j, 1]).re}"
            qid = WORLD.points.setdefault(qkey, f"q{len(WORLD.points)}")
            out[j] = SymBool(WORLD.region_of(self._ring, qid, sign))
        return SA(out, "b")


class PathModule:
    Path = ModelPath
