#!/usr/bin/env python3
"""Prints the markdown table of DESIGN.md section 11 from /verif/seeded/*/meta.json (written by run_seeds.py)."""
import json, os
V = "/verif/seeded"
WHAT = {
 "C02-f": "discriminant takes 4 abs(z)^2 from the caller's stale abs_sq_psi (gamma^4 * abs_sq_psi): wrong inside the screening loop, where update passes the step-n value with the previous iterate's psi",
 "C03-f": "link entries to refresh pre-masked from fixed_sites alone (fix_psi flag lost): with unpinned terminals the rows of terminal sites are never refreshed",
 "C05-f": "DynamicsData.from_hdf5 memoised per (file name, frame range): a second run written to the same path gets the first run's records and times",
 "C07-f": "Device.translate(inplace=True) shifts the Mesh object in place instead of rebuilding it: every copy sharing the Mesh (Device.copy, Solution.device) is moved too",
 "C12-f": "seeded runs warm-start tentative_dt from the seed's last step (clipped with the raw dt_max): with adaptivity off every step uses the seed's step",
 "C13-f": "dense screening kernel cached per Mesh object and xi: a second solver on the same mesh with another penetration depth iterates with the first one's weights",
 "C14-f": "CompositeParameter memoises its pickled operands: an operand changed in place after a first save is written in its old state",
 "C18-f": "vectorised probe-point transform: np.asarray + in-place shift writes into the original device's probe_points in Device.rotate",
 "C19-f": "Solution keeps a reference to the caller's Device instead of a snapshot: a seed computed before the device was changed in place is accepted (identity short-cut of __eq__)",
 "C20-f": "np.full_like(x, z) broadcast of the evaluation height borrows the integer dtype of x: the height is truncated for integer-typed coordinates",
 "C17-e": "`if d_psi_sq:` instead of `is not None`: an exactly zero window average (the stationary state) never updates the tentative step",
 "C08-e": "Device.copy() no longer forwards length_units: every clone (also the one a Solution stores) is a 'um' device",
 "C11-e": "the |psi|^2 returned by the kernel is cached on the solver and re-used as the next step's input (state that a saved frame does not hold)",
 "C15-e": "DataHandler.__exit__ formats exc_value.args[0]: a message-less exception raises IndexError before the files are closed",
 "C16-e": "Parameter.__eq__ compares keyword values by position instead of by name",
 "C18-e": "Polygon.path memoised and never invalidated: membership after an in-place transform is answered for the old vertices",
 "C19-e": "shape check of the vector potential compares only the number of rows: an (n, 1) array is accepted",
 "C20-e": "azimuthal angle of the current-loop potential taken before the positions are re-centred on the loop",
 "C01-d": "J_scale without conversion to base units: the injected current is off by the prefix ratio of current and length units (mA with um)",
 "C03-d": "PARDISO back end re-wraps the CSC buffers of the scalar Laplacian as CSR: the Poisson matrix becomes the transpose",
 "C04-d": "MeshOperators caches the normalised edge directions: refreshed link variables use unit vectors instead of edge vectors",
 "C06-d": "Device.terminal_info() cached and never invalidated: after re-meshing the solver pins the old mesh's site numbers",
 "C07-d": "shift back from the centred frame moved to the end of generate_mesh, missing on the early-return path (off-centre devices, no refinement)",
 "C09-d": "a progress-reporting guard re-uses the local name dt: the elapsed wall-clock time is handed to update() as the previous time step",
 "C10-d": "screening loop refreshes the operators with the previous step's applied potential (A_applied instead of current_A_applied)",
 "C14-d": "None-valued option names joined with ', ' but split on ',' and filtered: every None option after the first reloads as its default",
 "C01-a": "`break` instead of `continue` in update_mu_boundary: terminals after an unchanged one keep stale boundary currents",
 "C01-b": "Device.terminal_info() cached: stale terminal sites / edges / lengths after the device is re-meshed",
 "C02-a": "retry loop re-runs the kernel with the un-reduced dt and reports the reduced one",
 "C02-b": "early return psi' = w for gamma = 0 leaves the reported squared modulus stale",
 "C02-c": "stable root formula replaced by the textbook one with a z == 0 guard: catastrophic cancellation for small non-zero z (floating point only)",
 "C03-a": "conjugate of the link variable dropped in the in-place refresh of the Laplacian",
 "C03-b": "cached row / column index arrays of the Laplacian links swapped (refresh path)",
 "C04-a": "operator refresh skipped when the new link exponents are allclose to the old ones",
 "C04-b": "zero link exponents build real-dtype operators; later complex link variables are cast to real",
 "C05-a": "time advanced by the next step's dt instead of the accepted one",
 "C05-c": "retry loop reduces the kernel's dt but returns the un-reduced tentative dt (frames and records mislabelled after a retried step)",
 "C05-b": "stop test `>` instead of `>=`: one step too many when the end time is hit exactly",
 "C06-a": "link entries of the Laplacian refresh re-ordered so that they no longer match the cached free-row mask (pinned rows overwritten)",
 "C06-b": "terminal value re-imposed only if terminal_psi is truthy: terminal_psi = 0 is not re-imposed (seeded start)",
 "C07-a": "boundary correction of Voronoi cell areas by a direct triangle formula with the wrong vertex order",
 "C07-b": "hole markers handed to Triangle in the un-centred frame (off-centre devices with holes)",
 "C08-a": "J_scale without conversion to base units (non-default current / length units)",
 "C08-b": "A_scale overwritten by the screening prefactor (screening + time-dependent potential)",
 "C09-a": "terminal names kept in a set: iteration order depends on PYTHONHASHSEED",
 "C09-b": "screening kernel parallelised over source sites with an array reduction (thread-count dependent sums)",
 "C10-a": "zero potential builds real-dtype operators; refresh casts complex values",
 "C10-b": "row indices of the gradient/Laplacian assembly reordered (pattern differs after refresh)",
 "C11-a": "seed solution no longer carries the induced vector potential into the first update",
 "C11-b": "link-variable refresh moved to the end of the screening iteration: a resumed solver starts with stale operators",
 "C12-a": "next proposal averages with the stale tentative_dt instead of the accepted dt",
 "C12-b": "adaptivity silently switched off when dt_init == dt_max",
 "C12-c": "give-up condition of the retry loop inverted with `or`: adaptive runs never give up, fixed-step runs retry with a reduced step",
 "C13-a": "floor of the relative-error denominator raised from 1e-20 to 1e-8",
 "C13-b": "screening loop bounded by range(max+1): the non-convergence error can never fire",
 "C13-c": "Polyak update done in place: the accepted induced potential held by the runner / seed is overwritten by the next step's iterates",
 "C14-a": "falsy option values skipped on save",
 "C14-b": "screening_iterations only written when theta is recorded (stand-alone save without probes)",
 "C15-a": "solution reports the user's relative path instead of the data handler's fresh path",
 "C15-b": "pre-existing output file deleted when its .tmp companion also exists",
 "C16-a": "kwargs dict shared between calls of a Parameter",
 "C16-b": "cache key of a time-dependent leaf ignores the y coordinates",
 "C17-a": "fixed_sites passed to build_laplacian although terminal_psi is None",
 "C17-b": "rows / columns swapped in the refresh branch for unpinned terminals",
 "C18-a": "orient() replaced by a rebuild from the exterior ring: set-operation results with a hole are silently filled instead of refused",
 "C19-a": "current balance tested with np.isclose default tolerances (imbalance of 1e-6 accepted)",
 "C19-b": "Device.__eq__ compares holes / terminals with zip (prefix equality): foreign seed accepted",
 "C20-a": "sheet height z0 not converted to metres",
 "C20-b": "biot_savart_2d scales the caller's current-density array in place",
}
rows = []
for name in sorted(os.listdir(V)):
    mp = f"{V}/{name}/meta.json"
    if not os.path.exists(mp):
        continue
    m = json.load(open(mp))
    det = ", ".join(f"{r['check']} ({r['violations']} violations, {r['wall_s']} s)" for r in m.get("detected_by", [])) or "-"
    miss = ", ".join(r["check"] for r in m.get("not_detected_by", [])) or "-"
    inc = ", ".join(f"{r['check']} (exit {r['exit']})" for r in m.get("inconclusive", [])) or "-"
    what = WHAT.get(name) or (m.get("needs_to_manifest", "").strip().splitlines() or [""])[0][:120]
    rows.append(f"| {name} | {what}{' (rebased patch)' if m.get('patch_used') == 'patch_rebased.diff' else ''} | {det} | {miss} | {inc} |")
print("| seeded change | what it does | detected by (quick tier) | run, not detected | inconclusive |")
print("|---|---|---|---|---|")
print("\n".join(rows))
