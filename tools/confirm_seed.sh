#!/bin/bash
# usage: confirm_seed.sh <worktree-dir> <out-file>
# Confirms a seeded mutation: demo fails with the change, passes without, baseline tests still pass.
WT=$1; OUT=$2
mkdir -p /tmp/wt; cd "$WT" || exit 2
export MPLBACKEND=Agg
{
echo "== worktree $WT"
git diff --stat -- tdgl | tail -1
echo "== demo WITH change"
timeout 1800 /venv/bin/python MUTATION/demo.py > /tmp/wt/$(basename $WT).demo_with.txt 2>&1; W=$?
echo "exit=$W"; tail -3 /tmp/wt/$(basename $WT).demo_with.txt
git apply -R MUTATION/patch.diff || echo "REVERSE APPLY FAILED"
echo "== demo WITHOUT change"
timeout 1800 /venv/bin/python MUTATION/demo.py > /tmp/wt/$(basename $WT).demo_without.txt 2>&1; WO=$?
echo "exit=$WO"; tail -3 /tmp/wt/$(basename $WT).demo_without.txt
git apply MUTATION/patch.diff || echo "RE-APPLY FAILED"
echo "== baseline tests WITH change"
NPROC=${NPROC:-3} nice -n 10 /verif/tools/run_tests.sh "$WT" | tail -14
echo "== summary with=$W without=$WO"
} > "$OUT" 2>&1
