#!/bin/bash
# usage: try_mutant.sh <check-id> <file-relative-to-repo> <python-literal-old> <python-literal-new>
ID=$1; F=$2; OLD=$3; NEW=$4
cd /repo && python3 - "$F" "$OLD" "$NEW" <<'PY' || exit 9
import sys
f,old,new=sys.argv[1:4]
s=open(f).read()
assert s.count(old)>=1, "pattern not found"
open(f,'w').write(s.replace(old,new,1))
PY
cd /verif && timeout 1800 ./check $ID > /tmp/mut.$ID.log 2>&1; rc=$?
git -C /repo checkout -- .
echo "exit=$rc $(grep -c VIOLATION /tmp/mut.$ID.log) violations; $(grep 'tier=' /tmp/mut.$ID.log | cut -c1-200)"
grep "VIOLATION\|    obligation" /tmp/mut.$ID.log | head -4 | cut -c1-260
