"""C12 - Time steps follow the documented adaptive rule and its bounds.

The real `TDGLSolver.__init__`, `update` and `adaptive_euler_step` are executed for W+3
consecutive steps with symbolic dt_init <= dt_max, retry multiplier in (0,1), per-step symbolic
|psi'|^2 (so the windowed mean of max|d|psi|^2| is an arbitrary history) and a scripted number
of refusals of the psi-kernel; the kernel itself and the Poisson solve are opaque stubs.
Oracle: docs/background.rst eq. dt-tentative and the retry pseudocode."""
import numpy as np

from symx import engine, meshes
from symx.engine import Case

from . import common as K
from . import solver_setup as S

ID = "C12"
ENCODED = [
    "tdgl.solver.solver:TDGLSolver.__init__",
    "tdgl.solver.solver:TDGLSolver.update",
    "tdgl.solver.solver:TDGLSolver.adaptive_euler_step",
    "tdgl.solver.solver:TDGLSolver.solve",
    "tdgl.solver.runner:Runner.run",
]
BOUNDS = {
    "quick": dict(windows=[1, 2], max_retries=[0, 1], structure="one inductive step from an arbitrary solver state + a 4-step run (W=1)"),
    "thorough": dict(windows=[1, 2, 3, 5], max_retries=[0, 1, 2, 3], structure="one inductive step from an arbitrary solver state + a 4-step run (W=1)"),
}
ASSUMPTIONS = [
    "psi-kernel opaque: returns arbitrary |psi'|^2 >= 0 per site, refuses a scripted number of times per step",
    "Poisson solve opaque; no screening; static drive",
    "0 < dt_init <= dt_max, multiplier in (0,1) symbolic; window and max retries enumerated within the bound",
    "exact real arithmetic for the step rule (np.clip / mean / max modelled over the reals)",
]
OUTSIDE = ["float rounding in clip/mean", "histories longer than W+3 steps (the rule only reads the last W values and dt)"]
TV_SAMPLES = {"quick": 2, "thorough": 2}
MAX_PATHS = {"quick": 3000, "thorough": 20000}


def patch_spec(case):
    if case.params.get("mode") == "initial":
        from . import C11

        spec = C11.patch_spec(case)
        return spec
    return S.patch_spec(extra_modules=["tdgl.solver.options"])


def cases(tier, seed):
    b = BOUNDS[tier]
    meshes.get_device("bar0", seed)
    out = []
    for W in b["windows"]:
        for R in b["max_retries"]:
            # one inductive step from an arbitrary solver state (arbitrary proposed dt in (0, dt_max],
            # arbitrary history of max|d|psi|^2| values), at a step inside / at the edge of / after the window
            for step in sorted({0, W, W + 1, W + 4}):
                out.append(Case(f"inductive:W={W}:R={R}:step={step}", W=W, R=R, adaptive=True, seed=seed, mode="inductive", step=step))
    if tier == "thorough":
        out.append(Case("run:W=1:R=0", W=1, R=0, adaptive=True, seed=seed, mode="run"))
    out.append(Case("fixed-step:R=1", W=1, R=1, adaptive=False, seed=seed, mode="run"))
    for adaptive in (True, False):
        for seeded in (False, True):
            out.append(Case(f"first-step:adaptive={int(adaptive)}:seeded={int(seeded)}", W=2, R=1, adaptive=adaptive, seeded=seeded, seed=seed, mode="initial"))
    return out


def body_initial(H, case):
    """The state a run starts from: whatever the seed solution went through, the first step of `solve()` is
    proposed with dt_init and an empty window history (real `solve`, opaque `update`)."""
    from tdgl.solution.data import TDGLData

    dev = S.symbolic_device(H, "bar0", case.seed, symbolic_mesh=False)
    ns, ne = len(dev.mesh.sites), len(dev.mesh.edge_mesh.edges)
    dt_init = H.real("dt_init", lo=1e-6, hi=1.0)
    dt_max = H.real("dt_max", lo=1e-6, hi=1.0)
    H.assume(dt_init <= dt_max)
    opts = S.make_options(solve_time=0.5, dt_init=dt_init, dt_max=dt_max, adaptive=case.adaptive, adaptive_window=case.W, output_file=None)
    solver = S.make_solver(H, dev, opts, validate=False)
    if case.seeded:
        from types import SimpleNamespace

        seed_dt = H.real("seed_dt", lo=0.0, hi=2.0, lo_open=True)
        seed_time = H.real("seed_time", lo=0.0, hi=100.0)
        data = TDGLData(step=7, epsilon=None, psi=H.cplxs("sp", ns), mu=H.reals("sm", ns), applied_vector_potential=None,
                        induced_vector_potential=H.reals2("sA", ne, 2), supercurrent=H.reals("sjs", ne), normal_current=H.reals("sjn", ne),
                        state={"step": 7, "time": seed_time, "dt": seed_dt, "timestamp": "2026-01-01 00:00:00"})
        solver.seed_solution = SimpleNamespace(device=dev, tdgl_data=data, options=opts)
    got = {}

    class Stop(Exception):
        pass

    def update(state, running_state, dt, **kw):
        got.update(state=dict(state), dt=dt, proposal=solver.tentative_dt, hist=list(solver.d_psi_sq_vals))
        raise Stop()

    solver.update = update
    try:
        solver.solve()
    except Stop:
        pass
    H.prove("the update function was reached", bool(got))
    if not got:
        return
    H.prove_eq("the first step of a run is proposed with dt_init", got["proposal"], dt_init)
    H.prove_eq("the runner hands dt_init to the first update", got["dt"], dt_init)
    H.prove("the run starts at step 0, time 0", got["state"]["step"] == 0 and float(got["state"]["time"]) == 0.0)
    H.prove("the window history of |psi|^2 changes starts empty", len(got["hist"]) == 0)


def body(H, case):
    if case.mode == "initial":
        return body_initial(H, case)
    W, R = case.W, case.R
    nsteps = W + 3
    dev = S.symbolic_device(H, "bar0", case.seed, symbolic_mesh=False)
    ns, ne = len(dev.mesh.sites), len(dev.mesh.edge_mesh.edges)
    dt_init = H.real("dt_init", lo=1e-6, hi=1.0)
    dt_max = H.real("dt_max", lo=1e-6, hi=1.0)
    H.assume(dt_init <= dt_max)
    mult = H.real("mult", lo=0.0, hi=1.0, lo_open=True, hi_open=True)
    opts = S.make_options(dt_init=dt_init, dt_max=dt_max, adaptive=case.adaptive, adaptive_window=W, max_solve_retries=R,
                          adaptive_time_step_multiplier=mult)
    solver = S.make_solver(H, dev, opts, validate=True)  # the real SolverOptions.validate() runs (twice)
    H.prove_eq("initial tentative dt = dt_init", solver.tentative_dt, dt_init)
    inductive = case.mode == "inductive"
    if inductive:
        # arbitrary reachable state: invariant  0 < tentative_dt <= dt_max,  history values >= 0
        P = H.real("P", lo=0.0, hi=1.0, lo_open=True)
        H.assume(P <= dt_max)
        solver.tentative_dt = P
        hist = [H.real(f"d{j}", lo=0.0, hi=4.0) for j in range(case.step)] if case.step <= W + 1 else [H.real(f"d{j}", lo=0.0, hi=4.0) for j in range(W + 2)]
        solver.d_psi_sq_vals = list(hist)
        first_step, nsteps = case.step, case.step + 1
        refuse_steps = {case.step}
    else:
        hist = []
        first_step = 0
        refuse_steps = {1, W + 1}
    st = dict(step=0, attempts=0, refusals=0, dts=[])

    ones = H.array([1.0] * ns) if H.mode == "sym" else np.ones(ns)

    def fake_kernel(*, psi, abs_sq_psi, mu, epsilon, gamma, u, dt, psi_laplacian):
        st["attempts"] += 1
        st["dts"].append(dt)
        if st["step"] in refuse_steps and st["refusals"] < st["plan"]:
            st["refusals"] += 1
            return None
        X = H.reals(f"x{st['step']}_", ns, lo=0.0, hi=4.0)
        st["X"] = X
        return psi, X

    solver.solve_for_psi_squared = fake_kernel
    zed = H.array([0.0] * ne) if H.mode == "sym" else np.zeros(ne)
    mu0 = H.array([0.0] * ns) if H.mode == "sym" else np.zeros(ns)
    solver.solve_for_observables = lambda p, dA_dt: (mu0, zed, zed)
    rs = S.running_state(H, solver, size=nsteps + 2)
    psi = (H.array([1.0] * ns) if H.mode == "sym" else np.ones(ns, dtype=complex))
    dvals = list(hist)
    dt_prev = dt_init
    bound = dt_max if case.adaptive else dt_init
    for step in range(first_step, nsteps):
        st.update(step=step, attempts=0, refusals=0, dts=[])
        st["plan"] = H.choice(f"refusals@{step}", list(range(R + 3))) if step in refuse_steps else 0
        proposed = solver.tentative_dt
        raised = False
        try:
            res = solver.update({"step": step, "time": 0.0, "dt": dt_prev}, rs, dt_prev, psi=psi, mu=mu0, supercurrent=zed,
                                normal_current=zed, induced_vector_potential=S.zeros2(H, ne, 2))
        except RuntimeError as e:
            if "Solver failed to converge" not in str(e):
                raise
            raised = True
        k = st["refusals"]
        tag = f"step {step}"
        # retries: each refusal multiplies dt by the multiplier exactly once
        for a, d in enumerate(st["dts"]):
            H.prove_eq(f"{tag}: attempt {a} uses proposed dt * mult^{a}", d, proposed * mult**a)
        if not case.adaptive:
            H.prove(f"{tag}: non-adaptive refusal raises immediately", raised == (st["plan"] >= 1))
            if raised:
                H.prove(f"{tag}: non-adaptive makes a single attempt", st["attempts"] == 1)
                return
        else:
            # documented: retried while retries <= max_solve_retries; lenient about the off-by-one
            # between "R retries" in the message and `retries > R` in the code
            if st["plan"] <= R:
                H.prove(f"{tag}: a kernel that answers within R retries never raises", not raised)
            if raised:
                H.prove(f"{tag}: error only after more than R refusals", k > R)
                H.prove(f"{tag}: gives up after at most R+2 attempts", st["attempts"] <= R + 2)
                return
            H.prove(f"{tag}: answered => at most R+1 refusals", k <= R + 1)
        dt = res.dt
        H.prove_eq(f"{tag}: used dt = proposed dt * mult^refusals", dt, proposed * mult**k)
        H.prove(f"{tag}: used dt > 0", dt > 0)
        H.prove(f"{tag}: used dt <= dt_max", dt <= bound)
        if not case.adaptive:
            H.prove_eq(f"{tag}: adaptivity off => dt = dt_init", dt, dt_init)
            H.prove_eq(f"{tag}: adaptivity off => proposal stays dt_init", solver.tentative_dt, dt_init)
        else:
            X = st["X"]
            d = None
            for i in range(ns):
                di = abs(K.at(X, i) - 1.0)
                if d is None:
                    d = di
                elif H.mode == "sym":
                    from symx.arr import _max2

                    d = _max2(d, di)
                else:
                    d = max(d, di)
            dvals.append(d)
            if step > W:
                mean = K.total(dvals[-W:]) / W
                if H.mode == "sym":
                    import z3

                    from symx.core import Sc, to_real

                    delta = Sc(z3.If(mean.re > to_real(1e-10), mean.re, to_real(1e-10)))
                    want = 0.5 * (dt + dt_init / delta)
                    want = Sc(z3.If(want.re > dt_max.re, dt_max.re, want.re))
                else:
                    delta = max(1e-10, mean)
                    want = min(0.5 * (dt + dt_init / delta), dt_max)
                H.prove_eq(f"{tag}: next proposal = min((dt + dt_init/delta)/2, dt_max)", solver.tentative_dt, want)
            else:
                H.prove_eq(f"{tag}: proposal unchanged inside the warm-up window", solver.tentative_dt, proposed)
            H.prove(f"{tag}: next proposal > 0", solver.tentative_dt > 0)
            H.prove(f"{tag}: next proposal <= dt_max", solver.tentative_dt <= dt_max)
        dt_prev = dt
