"""C16 - Parameter arithmetic means pointwise arithmetic of its operands.

The real `Parameter` / `CompositeParameter` classes (constructor, operator overloads, `__call__`,
`_clear_cache`, `__eq__`, pickling hooks) are executed on every expression tree up to the bound
over {+,-,*,/,**} and leaves {2-D parameter, 3-D parameter, time-dependent parameter, int,
float} in both operand orders, with *uninterpreted* leaf functions f(x,y[,z][,t]) and symbolic
evaluation points, time and numeric leaves.  Oracle: an independent recursive evaluator."""
import itertools
import operator
import pickle

import numpy as np

from symx import core, engine
from symx.core import CTX, Sc
from symx.engine import Case

from . import common as K

ID = "C16"
ENCODED = [
    "tdgl.parameter:Parameter.__init__",
    "tdgl.parameter:Parameter.__call__",
    "tdgl.parameter:Parameter._evaluate",
    "tdgl.parameter:Parameter._hash_args",
    "tdgl.parameter:Parameter.__eq__",
    "tdgl.parameter:CompositeParameter.__init__",
    "tdgl.parameter:CompositeParameter.__call__",
    "tdgl.parameter:CompositeParameter._clear_cache",
    "tdgl.parameter:CompositeParameter.__eq__",
    "tdgl.parameter:CompositeParameter.__getstate__",
    "tdgl.parameter:CompositeParameter.__setstate__",
    "tdgl.solver.solver:TDGLSolver.__init__",
    "tdgl.solver.solver:TDGLSolver.update_applied_vector_potential",
]
BOUNDS = {
    "quick": dict(depth=2, trees="all depth-1 trees, depth-2 trees with one operator pair per shape", arguments=["scalar", "array(2)"]),
    "thorough": dict(depth=3, trees="all depth-1 and depth-2 trees, sampled depth-3 trees (seeded)", arguments=["scalar", "array(2)"]),
}
ASSUMPTIONS = [
    "leaf functions are uninterpreted functions of their arguments; numeric leaves, points and time are arbitrary reals (numeric leaves non-zero)",
    "`**` with a symbolic exponent is an uninterpreted pow(base, exponent)",
    "cache keys (sha1 of the argument bytes) are modelled by syntactic identity of the argument terms",
    "pickling runs the real pickle / cloudpickle on the (concrete) expression objects",
]
OUTSIDE = ["trees deeper than the bound (each node only looks at its two operands: inductive)", "user functions with side effects"]
TV_SAMPLES = {"quick": 2, "thorough": 2}
OPS = [("+", operator.add), ("-", operator.sub), ("*", operator.mul), ("/", operator.truediv), ("**", operator.pow)]
LEAVES = ["P2", "P3", "Pt", "int", "float"]


# --- leaf functions (module level so that they can be pickled) -------------------------------------
_MODE = {"H": None}


def _opaque(name, *args):
    H = _MODE["H"]
    if H is not None and H.mode == "sym":
        from symx import arr

        arrs = [a for a in args if isinstance(a, (arr.SA, np.ndarray))]
        n = len(arrs[0]) if arrs else 1
        out = []
        for i in range(n):
            sc = [K.at(a, i) if isinstance(a, (arr.SA, np.ndarray)) else a for a in args]
            out.append(core.opaque_fn(name, *sc))
        return arr.SA(np.array(out + [None], dtype=object)[:-1])
    return CONCRETE[name](*[np.asarray(a, dtype=float) for a in args])


CONCRETE = {
    "f2": lambda x, y: np.sin(x) + 2.0 * y + 3.0,
    "f3": lambda x, y, z: np.cos(x * y) + 0.5 * z + 2.5,
    "ft": lambda x, y, t: x - 0.3 * y + np.exp(-0.1 * t) + 2.0,
}


def f2(x, y):
    return _opaque("f2", x, y)


def f3(x, y, z):
    return _opaque("f3", x, y, z)


def ft(x, y, *, t):
    return _opaque("ft", x, y, t)


class _FakeHashlib:
    """sha1 of the argument bytes -> syntactic identity of the argument terms"""

    class _D:
        def __init__(self, s):
            self.s = s

        def hexdigest(self):
            return self.s

    @staticmethod
    def sha1(obj):
        from symx import arr

        if isinstance(obj, arr.SA):
            return _FakeHashlib._D("|".join(str(v.re) + "," + str(v.im) if isinstance(v, Sc) else repr(v) for v in obj.data.ravel()))
        import hashlib

        return hashlib.sha1(obj)


def patch_spec(case):
    if case.params.get("kind") == "solver":
        from . import solver_setup as S

        spec = S.patch_spec()
        spec["tdgl.parameter"]["hashlib"] = _FakeHashlib
        return spec
    spec = engine.std_patch("tdgl.parameter")
    spec["tdgl.parameter"]["hashlib"] = _FakeHashlib
    return spec


# --- vector-valued leaves for the hand-off to the solver (an applied vector potential returns (n, 3)) --------
CONCRETE.update({
    "ax": lambda x, y, z: 0.3 * np.sin(x) - 0.2 * y + 0.1 * z,
    "ay": lambda x, y, z: 0.25 * np.cos(y) + 0.15 * x,
    "bx": lambda x, y, z: 0.1 * x * y + 0.05,
    "by": lambda x, y, z: -0.2 * x + 0.1 * np.sin(z + y),
    "tx": lambda x, y, z, t: 0.1 * y * np.cos(0.7 * t) + 0.02 * t,
    "ty": lambda x, y, z, t: -0.1 * x * np.sin(0.3 * t + 0.2),
})


def _vec(nx, ny, *args):
    H = _MODE["H"]
    vx, vy = _opaque(nx, *args), _opaque(ny, *args)
    if H is not None and H.mode == "sym":
        from symx import arr

        n = len(vx)
        out = np.empty((n, 3), dtype=object)
        for i in range(n):
            out[i, 0], out[i, 1], out[i, 2] = K.at(vx, i), K.at(vy, i), Sc.of(0.0)
        return arr.SA(out)
    return np.stack([vx, vy, np.zeros_like(vx)], axis=1)


def vA(x, y, z):
    return _vec("ax", "ay", x, y, z)


def vB(x, y, z):
    return _vec("bx", "by", x, y, z)


def vT(x, y, z, *, t):
    return _vec("tx", "ty", x, y, z, t)


HANDOFF = {  # name -> (builder of the expression from leaves A, B, T and numbers c, d; oracle on values; time dependent)
    "A": (lambda A, B, T, c, d: A, lambda a, b, t, c, d: a, False),
    "A*c": (lambda A, B, T, c, d: A * c, lambda a, b, t, c, d: a * c, False),
    "c*A": (lambda A, B, T, c, d: c * A, lambda a, b, t, c, d: c * a, False),
    "A+B": (lambda A, B, T, c, d: A + B, lambda a, b, t, c, d: a + b, False),
    "A/c-B*d": (lambda A, B, T, c, d: A / c - B * d, lambda a, b, t, c, d: a / c - b * d, False),
    "T": (lambda A, B, T, c, d: T, lambda a, b, t, c, d: t, True),
    "A+T": (lambda A, B, T, c, d: A + T, lambda a, b, t, c, d: a + t, True),
    "T*c+A": (lambda A, B, T, c, d: T * c + A, lambda a, b, t, c, d: t * c + a, True),
    "c*(A-T)+B/d": (lambda A, B, T, c, d: c * (A - T) + B / d, lambda a, b, t, c, d: c * (a - t) + b / d, True),
    "(A+B)*(c)-(T+A)": (lambda A, B, T, c, d: (A + B) * c - (T + A), lambda a, b, t, c, d: (a + b) * c - (t + a), True),
}


def body_solver(H, case):
    """'... and be handed to the solver like plain parameters': the real TDGLSolver constructor and
    update_applied_vector_potential with an expression of vector-valued leaves as the applied potential"""
    from tdgl.parameter import Parameter

    from . import solver_setup as S

    _MODE["H"] = H
    if H.mode == "sym":
        CTX.opaque_eval.update({k: (lambda *a, _f=v: float(np.asarray(_f(*[np.asarray(x, dtype=float) for x in a])).ravel()[0])) for k, v in CONCRETE.items()})
    build, oracle, timedep = HANDOFF[case.expr]
    c, d = 2.0, 1.5  # (Parameter arithmetic insists on plain numbers)
    dev = S.symbolic_device(H, "bar0", case.seed, symbolic_mesh=False)
    A, B, T = Parameter(vA), Parameter(vB), Parameter(vT, time_dependent=True)
    expr = build(A, B, T, c, d)
    opts = S.make_options(dt_init=0.01, dt_max=0.01, adaptive=False)
    solver = S.make_solver(H, dev, opts, A=expr, validate=False)
    H.prove(f"{case.expr}: the solver treats the potential as time dependent exactly when a leaf is", bool(solver.dynamic_vector_potential) == timedep)
    xi = dev.coherence_length.magnitude
    ec = xi * np.asarray(dev.mesh.edge_mesh.centers, dtype=float)
    z0 = float(dev.layer.z0)
    ne = len(ec)

    def want(tt):
        out = []
        for e in range(ne):
            x, y = float(ec[e, 0]), float(ec[e, 1])
            row = []
            for comp in (0, 1):
                if H.mode == "sym":
                    a = core.opaque_fn(("ax", "ay")[comp], x, y, z0)
                    b = core.opaque_fn(("bx", "by")[comp], x, y, z0)
                    t = core.opaque_fn(("tx", "ty")[comp], x, y, z0, tt)
                else:
                    a = float(CONCRETE[("ax", "ay")[comp]](x, y, z0))
                    b = float(CONCRETE[("bx", "by")[comp]](x, y, z0))
                    t = float(CONCRETE[("tx", "ty")[comp]](x, y, z0, tt))
                row.append(solver.A_scale * oracle(a, b, t, c, d))
            out.append(row)
        return out

    w0 = want(0.0)
    for e in range(ne):
        for comp in (0, 1):
            H.prove_eq(f"{case.expr}: potential in use after construction, edge {e} component {comp} = A_scale * op(values of the leaves at t = 0)", K.at(solver.current_A_applied, e, comp), w0[e][comp])
    if timedep:
        for k in range(2):
            tt = H.real(f"time{k}", lo=0.0, hi=5.0)
            got = solver.update_applied_vector_potential(tt)
            wt = want(tt)
            for e in range(ne):
                for comp in (0, 1):
                    H.prove_eq(f"{case.expr}: potential at time t{k}, edge {e} component {comp} = A_scale * op(values of the leaves at that time)", K.at(got, e, comp), wt[e][comp])


def leaf_specs():
    return [("leaf", l) for l in LEAVES]


def all_trees(depth, rng=None, limit=None):
    """tree spec: ('leaf', kind) | ('op', symbol, left, right); at least one Parameter operand"""
    d1 = []
    for (sym, _), a, b in itertools.product(OPS, LEAVES, LEAVES):
        if a in ("int", "float") and b in ("int", "float"):
            continue
        d1.append(("op", sym, ("leaf", a), ("leaf", b)))
    if depth == 1:
        return d1
    out = list(d1)
    # depth 2: composite (op) leaf / leaf (op) composite / composite (op) composite
    subs = d1
    pairs = []
    for (sym, _) in OPS:
        for s in subs:
            for l in LEAVES:
                pairs.append(("op", sym, s, ("leaf", l)))
                pairs.append(("op", sym, ("leaf", l), s))
    return out, pairs, subs


def degenerate(t):
    """contains X - X of the same leaf kind (identically zero: divisor / base of a power blows up)"""
    if t[0] == "leaf":
        return False
    if t[1] == "-" and t[2] == t[3]:
        return True
    return degenerate(t[2]) or degenerate(t[3])


def cases(tier, seed):
    rng = np.random.default_rng(seed)
    d1, d2, subs = all_trees(2)
    d1 = [t for t in d1 if not degenerate(t)]
    d2 = [t for t in d2 if not degenerate(t)]
    subs = [t for t in subs if not degenerate(t)]
    out = [Case("depth1:all", trees=d1, seed=seed), Case("equality:keyword-arguments", trees=[], seed=seed, kind="kwargs"),
           Case("pickle:history", trees=[], seed=seed, kind="pickle_history")]
    from symx import meshes

    meshes.get_device("bar0", seed)
    for e in HANDOFF:
        out.append(Case(f"solver-hand-off:{e}", trees=[], seed=seed, kind="solver", expr=e))
    if tier == "quick":
        # every (outer op, leaf kind, side) x inner trees covering every inner op and every leaf pair class
        inner = [s for s in subs if s[1] in ("+", "*")] + [s for s in subs if s[2][1] == "Pt" or s[3][1] == "Pt"]
        inner_ids = {id(s) for s in inner}
        sel = [t for t in d2 if (id(t[2]) in inner_ids or id(t[3]) in inner_ids)]
        idx = rng.permutation(len(sel))[:400]
        out.append(Case("depth2:selected", trees=[sel[i] for i in sorted(idx)], seed=seed))
        cc = [("op", o, a, b) for (o, _) in OPS[:3] for a in subs[::17] for b in subs[::23]]
        out.append(Case("depth2:composite-composite", trees=cc[:120], seed=seed))
    else:
        for k in range(0, len(d2), 700):
            out.append(Case(f"depth2:{k // 700}", trees=d2[k:k + 700], seed=seed))
        cc = [("op", o, a, b) for (o, _) in OPS for a in subs[::7] for b in subs[::11]]
        out.append(Case("depth2:composite-composite", trees=cc[:600], seed=seed))
        d3 = []
        for _ in range(300):
            a = d2[int(rng.integers(len(d2)))]
            b = ("leaf", LEAVES[int(rng.integers(5))]) if rng.random() < 0.5 else subs[int(rng.integers(len(subs)))]
            o = OPS[int(rng.integers(5))][0]
            d3.append(("op", o, a, b) if rng.random() < 0.5 else ("op", o, b, a))
        out.append(Case("depth3:sampled", trees=d3, seed=seed))
    return out


def leaf_kinds(t):
    if t[0] == "leaf":
        return {t[1]}
    return leaf_kinds(t[2]) | leaf_kinds(t[3])


def same_value(H, name, got, want):
    """pointwise agreement; outside the real domain of ** (negative base, fractional exponent)
    Python scalars give complex numbers and numpy arrays NaN: both count as 'domain error'"""
    if H.mode == "sym":
        return H.prove_eq(name, got, want)
    g, w = complex(got), complex(want)
    bad = lambda v: (v != v) or abs(v.imag) > 1e-12 or abs(v) == float("inf")
    if bad(w):
        # some sub-expression left the real domain of ** (negative base, fractional exponent) or overflowed:
        # numpy arrays give NaN / inf there, Python scalars complex numbers (which a later even power can
        # turn back into an almost-real number): no claim outside the real domain
        return H.prove(name, True)
    if bad(g):
        return H.prove(name, False)
    return H.prove(name, abs(g - w) <= 1e-9 * max(1.0, abs(g), abs(w)))


def show(t):
    if t[0] == "leaf":
        return t[1]
    return f"({show(t[2])} {t[1]} {show(t[3])})"


def kw_leaf(x, y, *, a, b):
    return a * x + b * y


def body_kwargs(H, case):
    """equality is structural: the keyword arguments of a leaf are compared by name (not by the order in which
    the caller wrote them), and so are the expressions built on such leaves"""
    from tdgl.parameter import Parameter

    a, b = H.real("ka", lo=0.5, hi=1.5), H.real("kb", lo=2.0, hi=3.0)  # a != b on the whole range
    a, b = (float(a), float(b)) if H.mode != "sym" else (1.0, 2.5)  # (Parameter insists on plain numbers for comparisons)
    P1, P2 = Parameter(kw_leaf, a=a, b=b), Parameter(kw_leaf, b=b, a=a)
    Q = Parameter(kw_leaf, b=a, a=b)  # values exchanged: a different function
    H.prove("same keyword arguments written in another order: equal", P1 == P2 and P2 == P1)
    H.prove("exchanged keyword values: not equal", not (P1 == Q) and not (Q == P1))
    other = Parameter(f2)
    for nm, op in OPS:
        H.prove(f"(leaf {nm} g) with the keywords in another order: equal", op(P1, other) == op(P2, other) and op(other, P1) == op(other, P2))
        H.prove(f"(leaf {nm} g) with exchanged keyword values: not equal", not (op(P1, other) == op(Q, other)) and not (op(other, P1) == op(other, Q)))
    x, y = H.real("x", lo=-2.0, hi=2.0), H.real("y", lo=-2.0, hi=2.0)
    same_value(H, "equal leaves evaluate equally", P1(x, y), P2(x, y))


def body_pickle_history(H, case):
    """a pickle holds the state the expression has *when it is pickled*, whatever was serialized before:
    pickle, change a leaf's keyword argument in place, pickle again (also starting from an unpickled object)"""
    from tdgl.parameter import Parameter

    _MODE["H"] = H
    if H.mode == "sym":
        CTX.opaque_eval.update({k: (lambda *a, _f=v: float(np.asarray(_f(*[np.asarray(x, dtype=float) for x in a])).ravel()[0])) for k, v in CONCRETE.items()})
    x, y = H.real("x", lo=-2.0, hi=2.0), H.real("y", lo=-2.0, hi=2.0)
    for origin in ("built", "unpickled"):
        for nm, op in OPS[:4]:
            leaf = Parameter(kw_leaf, a=1.0, b=2.5)
            other = Parameter(f2)
            for side in ("left", "right"):
                leaf.kwargs["a"] = 1.0
                P = op(leaf, other) if side == "left" else op(other, leaf)
                P = op(P, 2) if nm != "/" else P / 2  # one level deeper: the leaf is not a direct operand of the root
                if origin == "unpickled":
                    P = pickle.loads(pickle.dumps(P))
                first = pickle.dumps(P)
                # the leaf inside the expression at hand
                node = P.left
                target = node.left if side == "left" else node.right
                target.kwargs["a"] = 3.0
                second = pickle.loads(pickle.dumps(P))
                tag = f"{origin} (kw_leaf {nm} f2, leaf on the {side}) {nm if nm != '/' else '/'} 2"
                H.prove(f"{tag}: pickled again after an in-place change of a keyword argument: equal to the current expression", second == P and P == second)
                H.prove(f"{tag}: ... and not equal to what was pickled before the change", not (pickle.loads(first) == P))
                same_value(H, f"{tag}: ... and evaluates like the current expression", second(x, y), P(x, y))


def body(H, case):
    if case.params.get("kind") == "kwargs":
        return body_kwargs(H, case)
    if case.params.get("kind") == "pickle_history":
        return body_pickle_history(H, case)
    if case.params.get("kind") == "solver":
        return body_solver(H, case)
    import tdgl
    from tdgl.parameter import CompositeParameter, Parameter

    _MODE["H"] = H
    if H.mode == "sym":
        CTX.opaque_eval.update({k: (lambda *a, _f=v: float(np.asarray(_f(*[np.asarray(x, dtype=float) for x in a])).ravel()[0])) for k, v in CONCRETE.items()})
    ci = H.real("ci", lo=1.0, hi=5.0)
    cf = H.real("cf", lo=0.25, hi=3.0)
    # Parameter requires numbers.Number leaves: numeric leaves are concrete in the tree; their
    # symbolic counterparts are used by evaluating with the *same* concrete numbers (2 and 1.5)
    NUM = {"int": 2, "float": 1.5}
    x, y, z, t = H.real("x", lo=-2.0, hi=2.0), H.real("y", lo=-2.0, hi=2.0), H.real("z", lo=-2.0, hi=2.0), H.real("t", lo=0.0, hi=5.0)
    xs = H.array([x, H.real("x1", lo=-2.0, hi=2.0)])
    ys = H.array([y, H.real("y1", lo=-2.0, hi=2.0)])
    zs = H.array([z, H.real("z1", lo=-2.0, hi=2.0)])

    def build(spec):
        if spec[0] == "leaf":
            k = spec[1]
            if k == "P2":
                return Parameter(f2)
            if k == "P3":
                return Parameter(f3)
            if k == "Pt":
                return Parameter(ft, time_dependent=True)
            return NUM[k]
        op = dict(OPS)[spec[1]]
        return op(build(spec[2]), build(spec[3]))

    def timedep(spec):
        if spec[0] == "leaf":
            return spec[1] == "Pt"
        return timedep(spec[2]) or timedep(spec[3])

    def oracle(spec, X, Y, Z, T):
        if spec[0] == "leaf":
            k = spec[1]
            if k == "P2":
                return _opaque("f2", X, Y)
            if k == "P3":
                return _opaque("f3", X, Y, Z)
            if k == "Pt":
                return _opaque("ft", X, Y, T)
            return NUM[k]
        a, b = oracle(spec[2], X, Y, Z, T), oracle(spec[3], X, Y, Z, T)
        return dict(OPS)[spec[1]](a, b)

    def nodes(p):
        yield p
        if isinstance(p, CompositeParameter):
            for c in (p.left, p.right):
                if isinstance(c, Parameter):
                    yield from nodes(c)

    for n, spec in enumerate(case.trees):
        name = f"#{n} {show(spec)}"
        try:
            P = build(spec)
        except Exception as e:
            H.prove(f"{name}: can be built ({type(e).__name__}: {e})", False)
            continue
        H.prove(f"{name}: is a CompositeParameter", isinstance(P, CompositeParameter))
        try:
            H.prove(f"{name}: time_dependent = OR of operands", bool(P.time_dependent) == timedep(spec))
        except AttributeError as e:
            H.prove(f"{name}: time_dependent is readable ({e})", False)
            continue
        kw = dict(t=t) if timedep(spec) else {}
        kinds = leaf_kinds(spec)
        if "P3" in kinds and ("P2" in kinds or "Pt" in kinds):
            evals = []  # mixing 2-D and 3-D leaf functions has no common call signature: not evaluated
        elif "P3" in kinds:
            evals = [("scalar", (x, y, z)), ("array", (xs, ys, zs))]
        else:
            evals = [("scalar", (x, y, None)), ("array", (xs, ys, None))]
        for label, (X, Y, Z) in evals:
            try:
                got = P(X, Y, Z, **kw)
            except (OverflowError, ZeroDivisionError) as e:
                if label != "scalar":
                    H.prove(f"{name}: evaluates at {label} arguments ({type(e).__name__}: {e})", False)
                    continue
                got = float("nan")  # Python scalars raise where numpy gives inf / nan: outside the claim (see same_value)
            except Exception as e:
                H.prove(f"{name}: evaluates at {label} arguments ({type(e).__name__}: {e})", False)
                continue
            if label == "scalar":
                one = (lambda v: None if v is None else (H.array([v]) if H.mode == "sym" else np.array([v])))
                want = oracle(spec, one(X), one(Y), one(Z), t)
                same_value(H, f"{name}: value at a scalar point = op(values of the operands)", got if np.ndim(K.elems(got) if hasattr(got, "data") else got) == 0 else K.at(got, 0), K.at(want, 0) if hasattr(want, "__len__") else want)
            else:
                want = oracle(spec, X, Y, Z, t)
                g, w = K.elems(got), K.elems(want) if hasattr(want, "__len__") else [want, want]
                H.prove(f"{name}: array result has one value per point", len(g) == 2)
                if len(g) == 2:
                    for i in range(2):
                        same_value(H, f"{name}: value at array point {i}", g[i], w[i])
        # a second, third, fourth evaluation of the same tree (caches of time-dependent leaves are warm):
        # the value depends on every coordinate and on the time
        if evals:
            Z0 = evals[0][1][2]
            y2, x2, t2 = H.real("y_other", lo=-2.0, hi=2.0), H.real("x_other", lo=-2.0, hi=2.0), H.real("t_other", lo=0.0, hi=5.0)
            one = (lambda v: None if v is None else (H.array([v]) if H.mode == "sym" else np.array([v])))
            for label, (X, Y, T) in (("same x, other y", (x, y2, t)), ("other x, same y", (x2, y2, t)), ("same point, other time", (x2, y2, t2)), ("the first point again", (x, y, t))):
                kw2 = dict(t=T) if timedep(spec) else {}
                try:
                    want = oracle(spec, one(X), one(Y), one(Z0), T)
                except (OverflowError, ZeroDivisionError):
                    want = float("nan")
                try:
                    got = P(X, Y, Z0, **kw2)
                except (OverflowError, ZeroDivisionError):
                    got = float("nan")
                except Exception as e:
                    H.prove(f"{name}: evaluates again at {label} ({type(e).__name__}: {e})", False)
                    continue
                same_value(H, f"{name}: re-evaluated at {label} = op(values of the operands there)", got if np.ndim(K.elems(got) if hasattr(got, "data") else got) == 0 else K.at(got, 0), K.at(want, 0) if hasattr(want, "__len__") else want)
        # structural equality
        H.prove(f"{name}: equals an identically built expression", build(spec) == P)
        other = ("op", "+" if spec[1] != "+" else "*", spec[2], spec[3])
        H.prove(f"{name}: differs from the same operands under another operator", not (build(other) == P))
        # cache clearing
        try:
            P._clear_cache()
            H.prove(f"{name}: _clear_cache() empties every cache in the tree", all(len(nd._cache) == 0 for nd in nodes(P)))
        except Exception as e:
            H.prove(f"{name}: _clear_cache() works ({type(e).__name__}: {e})", False)
        # pickling
        try:
            P = build(spec)  # fresh tree: its caches hold no evaluation results
            Q = pickle.loads(pickle.dumps(P))
            ok = (Q == P) and all(nd.time_dependent == md.time_dependent for nd, md in zip(nodes(Q), nodes(P)))
            H.prove(f"{name}: pickle round trip gives an equal expression with the same time dependence", bool(ok))
            if ok and evals:
                Z0 = evals[0][1][2]
                try:
                    got2 = Q(x, y, Z0, **kw)
                    got1 = P(x, y, Z0, **kw)
                except (OverflowError, ZeroDivisionError):
                    got1 = got2 = float("nan")  # overflow of Python scalars: outside the claim (see same_value)
                same_value(H, f"{name}: unpickled expression evaluates to the same value", got2, got1)
        except Exception as e:
            H.prove(f"{name}: can be pickled ({type(e).__name__}: {e})", False)
