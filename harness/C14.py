"""C14 - Saved devices, meshes, solutions and parameters load back unchanged.

The real `TDGLSolver.solve` writes a solution through the real `Solution._save_to_hdf5_file`,
`Device/Layer/Polygon/Mesh/EdgeMesh.to_hdf5` onto an in-memory HDF5 tree; the real
`Solution.from_hdf5` (and `Device/Mesh/...from_hdf5`, `TDGLData/DynamicsData.from_hdf5`) loads it
back.  Every `SolverOptions` field is compared (numeric values symbolic, booleans and the
None-ness of optional fields forked), together with the device, the mesh arrays, the data of
the recorded steps and the drive parameters.  Mesh: restorable <=> all eight datasets present;
a mesh stored compressed reloads through `from_triangulation` and equals the stored one."""
import numpy as np

from symx import core, engine, fakeh5, meshes
from symx.engine import Case

from . import common as K
from . import solver_setup as S

ID = "C14"
ENCODED = [
    "tdgl.solution.solution:Solution._save_to_hdf5_file",
    "tdgl.solution.solution:Solution.from_hdf5",
    "tdgl.solution.solution:Solution.to_hdf5",
    "tdgl.solution.data:TDGLData.from_hdf5",
    "tdgl.solution.data:DynamicsData.from_hdf5",
    "tdgl.solution.data:DynamicsData.to_hdf5",
    "tdgl.solution.data:TDGLData.to_hdf5",
    "tdgl.solution.solution:Solution.delete_hdf5",
    "tdgl.device.device:Device.to_hdf5",
    "tdgl.device.device:Device.from_hdf5",
    "tdgl.finite_volume.mesh:Mesh.to_hdf5",
    "tdgl.finite_volume.mesh:Mesh.from_hdf5",
    "tdgl.finite_volume.mesh:Mesh.is_restorable",
    "tdgl.finite_volume.edge_mesh:EdgeMesh.to_hdf5",
    "tdgl.finite_volume.edge_mesh:EdgeMesh.from_hdf5",
    "tdgl.parameter:CompositeParameter.__getstate__",
    "tdgl.parameter:CompositeParameter.__setstate__",
]
BOUNDS = {
    "quick": dict(devices=["bar2p", "holed"], options="numeric fields symbolic; adaptive / pause_on_interrupt / include_screening / terminal_psi in {None, 0, symbolic} / max_solve_retries in {0, 3} forked", steps=2),
    "thorough": dict(devices=["bar2p", "holed", "tee3", "bar0"], options="as quick + save_every in {1, 2, 5}", steps=3),
}
ASSUMPTIONS = [
    "HDF5 replaced by an in-memory tree whose attributes accept only numbers / strings / arrays (anything else raises TypeError as in h5py)",
    "the run itself is scripted (opaque update); only what is written and read back matters here",
    "pickled callables go through the real cloudpickle on the real objects",
]
OUTSIDE = ["real HDF5 dtype coercions", "the pickle byte streams themselves", "pickled closures of user callables"]
TV_SAMPLES = {"quick": 1, "thorough": 1}


def patch_spec(case):
    from .C15 import patch_spec as p15

    return p15(case)


def cases(tier, seed):
    out = []
    for d in BOUNDS[tier]["devices"]:
        meshes.get_device(d, seed)
        out.append(Case(f"solution:{d}", kind="solution", dev=d, seed=seed, steps=BOUNDS[tier]["steps"], tier=tier))
        # no output file requested (the run writes to a temporary directory that is gone afterwards): the
        # solution is saved later from memory; two options (output_file, terminal_psi) are None at once
        out.append(Case(f"solution-from-memory:{d}", kind="solution", dev=d, seed=seed, steps=BOUNDS[tier]["steps"], tier="quick", temp=True))
        out.append(Case(f"mesh:{d}", kind="mesh", dev=d, seed=seed))
    return out


def body(H, case):
    fs = case.params.get("_fs")
    if H.mode == "sym":
        fs.files.clear(); fs.dirs.clear(); fs.dirs.add("/work"); fs.open_handles.clear(); fs.log.clear(); fs.tmp_counter = 0
        work = "/work"
        h5open = fakeh5.FakeH5py(fs).open
    else:
        import tempfile

        import h5py

        work = tempfile.mkdtemp(prefix="c14-")
        h5open = lambda path, mode: h5py.File(path, mode)
    try:
        return body_solution(H, case, work) if case.kind == "solution" else body_mesh(H, case, work, h5open)
    finally:
        if H.mode != "sym":
            import shutil

            shutil.rmtree(work, ignore_errors=True)


def same_array(H, name, a, b):
    """element-wise identity of two (possibly symbolic) arrays"""
    sa = np.shape(a.data if hasattr(a, "data") and not isinstance(a, np.ndarray) else a)
    sb = np.shape(b.data if hasattr(b, "data") and not isinstance(b, np.ndarray) else b)
    H.prove(f"{name} (shape)", sa == sb)
    if sa == sb:
        fa = a.ravel() if hasattr(a, "ravel") else np.asarray(a).ravel()
        fb = b.ravel() if hasattr(b, "ravel") else np.asarray(b).ravel()
        H.prove_conj_eq(name, list(zip(K.elems(fa), K.elems(fb))))


def arrays_equal(a, b):
    a = np.asarray(a.to_numpy() if hasattr(a, "to_numpy") else a)
    b = np.asarray(b.to_numpy() if hasattr(b, "to_numpy") else b)
    return a.shape == b.shape and bool(np.array_equal(a, b))


def body_mesh(H, case, work, h5open):
    from tdgl.finite_volume.mesh import Mesh

    dev = meshes.get_device(case.dev, case.seed)
    mesh = dev.mesh
    f = h5open(work + "/m.h5", "x")
    mesh.to_hdf5(f.create_group("full"))
    mesh.to_hdf5(f.create_group("small"), compress=True)
    H.prove("a fully stored mesh is restorable", Mesh.is_restorable(f["full"]))
    H.prove("a compressed mesh is not restorable", not Mesh.is_restorable(f["small"]))
    needed = ["sites", "elements", "boundary_indices", "areas", "edge_mesh", "dual_sites", "voronoi_polygons_flat", "voronoi_split_indices"]
    for nm in needed:
        g = f.create_group(f"without_{nm}")
        mesh.to_hdf5(g)
        del g[nm]
        H.prove(f"restorable requires {nm}", not Mesh.is_restorable(g))
    m1 = Mesh.from_hdf5(f["full"])
    m2 = Mesh.from_hdf5(f["small"])
    for nm in ("sites", "elements", "boundary_indices", "areas", "dual_sites"):
        H.prove(f"restored mesh: {nm} identical to the stored one", arrays_equal(getattr(m1, nm), getattr(mesh, nm)))
        H.prove(f"recomputed mesh: {nm} identical to the stored one", arrays_equal(getattr(m2, nm), getattr(mesh, nm)))
    for nm in ("centers", "edges", "boundary_edge_indices", "directions", "edge_lengths", "dual_edge_lengths", "normalized_directions"):
        H.prove(f"restored edge mesh: {nm} identical", arrays_equal(getattr(m1.edge_mesh, nm), getattr(mesh.edge_mesh, nm)))
        H.prove(f"recomputed edge mesh: {nm} identical", arrays_equal(getattr(m2.edge_mesh, nm), getattr(mesh.edge_mesh, nm)))
    H.prove("restored Voronoi polygons identical", len(m1.voronoi_polygons) == len(mesh.voronoi_polygons) and all(arrays_equal(a, b) for a, b in zip(m1.voronoi_polygons, mesh.voronoi_polygons)))
    f.close()


def body_solution(H, case, work):
    import dataclasses

    import tdgl
    from tdgl.solution.solution import Solution

    dev = S.symbolic_device(H, case.dev, case.seed, symbolic_mesh=False)
    if case.tier == "thorough":
        adaptive = H.choice("adaptive", [True, False])
        pause = H.choice("pause_on_interrupt", [True, False])
        screening = H.choice("include_screening", [False, True])
        tp_kind = H.choice("terminal_psi", ["zero", "none", "sym"])
        retries = H.choice("max_solve_retries", [0, 3])
        k = H.choice("save_every", [1, 2, 5])
        window = H.choice("adaptive_window", [0, 10])
    else:
        # covering array: every option takes each of its values (incl. falsy ones) in some configuration
        adaptive, pause, screening, tp_kind, retries, k, window = H.choice("configuration", [
            (True, True, False, "zero", 3, 2, 10),
            (False, False, True, "none", 0, 1, 0),
            (True, False, False, "sym", 0, 2, 0),
            (False, True, True, "sym", 3, 1, 10),
            (False, False, False, "none", 3, 2, 10),
        ])
    temp = bool(case.params.get("temp"))
    if temp:
        tp_kind = "none"
    tp = {"zero": 0.0, "none": None, "sym": H.real("tp", lo=0.0, hi=1.0)}[tp_kind]
    num = dict(
        dt_init=H.real("dt_init", lo=0.5, hi=1.0), dt_max=H.real("dt_max", lo=1.0, hi=2.0), skip_time=0.0,
        adaptive_time_step_multiplier=H.real("mult", lo=0.1, hi=0.9), screening_tolerance=H.real("tol", lo=1e-4, hi=1e-2),
        screening_step_size=H.real("alpha", lo=0.01, hi=1.0), screening_step_drag=H.real("beta", lo=0.1, hi=1.0),
        monitor_update_interval=H.real("mui", lo=0.5, hi=2.0),
    )
    T = H.real("T", lo=0.6, hi=0.9)  # 2 steps of size >= 1/2
    opts = tdgl.SolverOptions(solve_time=T, adaptive=adaptive, pause_on_interrupt=pause, include_screening=screening, terminal_psi=tp,
                              max_solve_retries=retries, adaptive_window=window, save_every=k, progress_interval=0,
                              output_file=None if temp else work + "/out.h5", field_units="uT", current_units="nA", **num)
    expected = dataclasses.asdict(opts)
    solver = S.make_solver(H, dev, opts, validate=False, A=0.25)
    calls = dict(n=0)

    def update(state, running_state, dt, *, psi, mu, supercurrent, normal_current, induced_vector_potential, **kw):
        calls["n"] += 1
        if calls["n"] > 6:
            raise core.UnwindBound("too many updates")
        running_state.append("dt", opts.dt_init)
        if solver.probe_points is not None:
            running_state.append("mu", mu[solver.probe_points])
            running_state.append("theta", mu[solver.probe_points])
        if opts.include_screening:
            running_state.append("screening_iterations", 1)
        return (opts.dt_init, psi * 0.5, mu + 1.0, supercurrent + 0.25, normal_current - 0.25, induced_vector_potential)

    solver.update = update
    sol = solver.solve()
    H.prove("solve() returns a solution", sol is not None)
    if sol is None:
        return
    if temp:
        H.prove("without an output file the run's temporary file is gone afterwards", not sol.saved_on_disk)
        alone_path = work + "/alone.h5"
        sol.to_hdf5(alone_path)
        alone = Solution.from_hdf5(alone_path)
        same_solution(H, "stand-alone file saved from memory", alone, sol, expected)
        return
    loaded = Solution.from_hdf5(sol.path)
    # ---- options, field by field ----------------------------------------------------------------
    got = dataclasses.asdict(loaded.options)
    for key, want in expected.items():
        have = got[key]
        if key == "sparse_solver":
            H.prove("option sparse_solver round-trips", getattr(have, "value", have) == getattr(want, "value", want))
        elif want is None or have is None or isinstance(want, (bool, str)) or isinstance(have, (bool, str)):
            H.prove(f"option {key} round-trips ({want!r})", same_plain(want, have))
        else:
            H.prove_eq(f"option {key} round-trips", have, want)
    # ---- device ------------------------------------------------------------------------------------
    H.prove("loaded device equals the original", loaded.device == dev)
    H.prove("loaded mesh arrays identical", arrays_equal(loaded.device.mesh.sites, dev.mesh.sites) and arrays_equal(loaded.device.mesh.areas, dev.mesh.areas)
            and arrays_equal(loaded.device.mesh.edge_mesh.edges, dev.mesh.edge_mesh.edges))
    H.prove("probe points round-trip", (dev.probe_points is None and loaded.device.probe_points is None) or arrays_equal(loaded.device.probe_points, dev.probe_points))
    # ---- data at every recorded step -----------------------------------------------------------------
    lo, hi = sol.data_range
    H.prove("same range of recorded steps", tuple(loaded.data_range) == (lo, hi))
    for step in range(lo, hi + 1):
        sol.load_tdgl_data(step)
        loaded.load_tdgl_data(step)
        for nm in ("psi", "mu", "supercurrent", "normal_current", "applied_vector_potential", "induced_vector_potential", "epsilon"):
            same_array(H, f"step {step}: {nm} identical", getattr(loaded.tdgl_data, nm), getattr(sol.tdgl_data, nm))
        H.prove_eq(f"step {step}: recorded time identical", loaded.tdgl_data.state["time"], sol.tdgl_data.state["time"])
    H.prove_conj_eq("per-step dt records identical", list(zip(K.elems(loaded.dynamics.dt), K.elems(sol.dynamics.dt))))
    # ---- drive ------------------------------------------------------------------------------------------
    H.prove("applied vector potential parameter equal", loaded.applied_vector_potential == sol.applied_vector_potential)
    H.prove("terminal currents equal", loaded.terminal_currents == sol.terminal_currents)
    H.prove("units round-trip", loaded.field_units == "uT" and loaded.current_units == "nA")
    same_dynamics(H, "solver-written file", loaded.dynamics, sol.dynamics)
    # ---- Solution.to_hdf5: a copy of the file, then a stand-alone file written after the original is gone ----
    sol.load_tdgl_data(hi)
    copy_path = work + "/copy.h5"
    sol.to_hdf5(copy_path)
    copied = Solution.from_hdf5(copy_path)
    same_solution(H, "copied file", copied, sol, expected)
    sol.delete_hdf5()
    H.prove("after delete_hdf5 the solution is no longer on disk", not sol.saved_on_disk)
    alone_path = work + "/alone.h5"
    sol.to_hdf5(alone_path)
    alone = Solution.from_hdf5(alone_path)
    same_solution(H, "stand-alone file", alone, sol, expected)
    # ---- the drive is written as it is when the solution is saved, whatever was serialized before -------
    leaf = tdgl.Parameter(_drive_leaf, scale=1.0)
    sol.applied_vector_potential = leaf * 2.0
    sol.to_hdf5(work + "/drive1.h5")
    back1 = Solution.from_hdf5(work + "/drive1.h5")
    H.prove("an expression used as the drive round-trips", back1.applied_vector_potential == sol.applied_vector_potential)
    leaf.kwargs["scale"] = 3.0  # the user changes the drive in place ...
    sol.to_hdf5(work + "/drive2.h5")  # ... and saves again
    back2 = Solution.from_hdf5(work + "/drive2.h5")
    H.prove("a drive changed in place between two saves is written as it is at the second save", back2.applied_vector_potential == sol.applied_vector_potential)
    H.prove("... and differs from the one written first", not (back2.applied_vector_potential == back1.applied_vector_potential))
    pt = (np.array([0.3, -0.2]), np.array([0.2, 0.4]), np.array([0.0, 0.0]))
    H.prove("... and evaluates like the current drive", bool(np.allclose(np.asarray(back2.applied_vector_potential(*pt), dtype=float), np.asarray(sol.applied_vector_potential(*pt), dtype=float), rtol=1e-12, atol=0)))
    re1 = Solution.from_hdf5(work + "/drive1.h5")
    re1.applied_vector_potential.left.kwargs["scale"] = 5.0  # the same history starting from a loaded solution
    re1.to_hdf5(work + "/drive3.h5")
    back3 = Solution.from_hdf5(work + "/drive3.h5")
    H.prove("a loaded drive changed in place and saved again is written as it is then", back3.applied_vector_potential == re1.applied_vector_potential and not (back3.applied_vector_potential == back1.applied_vector_potential))


def _drive_leaf(x, y, z, *, scale):
    return scale * np.stack([-0.5 * np.asarray(y, dtype=float), 0.5 * np.asarray(x, dtype=float), np.zeros(len(np.atleast_1d(x)))], axis=1)


def same_plain(want, have):
    """None / bool / str / plain number option values: same kind and equal (real HDF5 attributes come back
    as numpy scalars: numpy.bool_ for bool, numpy.int64 for int ...)"""
    if want is None or have is None:
        return want is None and have is None
    if isinstance(want, bool):
        return isinstance(have, (bool, np.bool_)) and bool(have) == want
    if isinstance(want, str):
        return isinstance(have, str) and have == want
    if isinstance(have, (bool, np.bool_, str)):
        return False
    return bool(have == want)


def same_dynamics(H, tag, got, want):
    for nm in ("dt", "mu", "theta", "screening_iterations"):
        a, b = getattr(got, nm), getattr(want, nm)
        H.prove(f"{tag}: per-step record {nm} present iff it was recorded", (a is None) == (b is None))
        if a is not None and b is not None:
            same_array(H, f"{tag}: per-step record {nm} identical", a, b)


def same_solution(H, tag, got, want, expected):
    import dataclasses

    have = dataclasses.asdict(got.options)
    ok = True
    for key, w in expected.items():
        h = have[key]
        if key in ("sparse_solver",):
            ok = ok and getattr(h, "value", h) == getattr(w, "value", w)
        elif w is None or h is None or isinstance(w, (bool, str)):
            ok = ok and same_plain(w, h)
        elif hasattr(w, "re") or hasattr(h, "re"):
            ok = ok and str(getattr(h, "re", h)) == str(getattr(w, "re", w))
        elif key != "output_file":
            ok = ok and bool(h == w)
    H.prove(f"{tag}: every option round-trips", ok)
    H.prove(f"{tag}: device equal", got.device == want.device)
    H.prove(f"{tag}: loaded step is the saved step", got.tdgl_data.step == want.tdgl_data.step)
    for nm in ("psi", "mu", "supercurrent", "normal_current", "applied_vector_potential", "induced_vector_potential", "epsilon"):
        same_array(H, f"{tag}: {nm} identical", getattr(got.tdgl_data, nm), getattr(want.tdgl_data, nm))
    H.prove_eq(f"{tag}: recorded time identical", got.tdgl_data.state["time"], want.tdgl_data.state["time"])
    same_dynamics(H, tag, got.dynamics, want.dynamics)
    H.prove(f"{tag}: drive equal", got.applied_vector_potential == want.applied_vector_potential and got.terminal_currents == want.terminal_currents)
