"""SMT driver: every non-trivial query runs in its own solver subprocess under a hard
timeout (nlsat ignores z3's soft timeout on some inputs); queries are distributed over all
cores.  `unknown`, timeouts and `(error` lines are *inconclusive*, never success."""
import concurrent.futures as cf
import json
import os
import shutil
import subprocess
import sys
import tempfile
import time

import z3

from .core import _nonlinear

WORK_ROOT = os.environ.get("SYMX_WORK", "/verif/.work")
PY = sys.executable
JOBS = int(os.environ.get("SYMX_JOBS", str(os.cpu_count() or 4)))


class Result:
    __slots__ = ("status", "model", "time", "by", "detail", "second")

    def __init__(self, status, model=None, time_=0.0, by="z3", detail="", second=None):
        self.status = status  # "unsat" | "sat" | "unknown" | "timeout" | "error"
        self.model = model or {}
        self.time = time_
        self.by = by
        self.detail = detail
        self.second = second

    def __repr__(self):
        return f"Result({self.status}, {self.time:.2f}s, by={self.by})"


def to_smt2(conjuncts, logic=None):
    s = z3.Solver()
    for c in conjuncts:
        s.add(c)
    txt = s.to_smt2()
    return txt


def model_to_dict(m):
    out = {}
    for d in m.decls():
        if d.arity() != 0:
            continue
        v = m[d]
        out[d.name()] = value_to_py(v)
    return out


def value_to_py(v):
    if z3.is_rational_value(v):
        return f"{v.numerator_as_long()}/{v.denominator_as_long()}"
    if z3.is_algebraic_value(v):
        a = v.approx(30)
        return f"{a.numerator_as_long()}/{a.denominator_as_long()}"
    if z3.is_true(v):
        return True
    if z3.is_false(v):
        return False
    if z3.is_int_value(v):
        return v.as_long()
    if z3.is_fp(v):
        # exact value as python float via the IEEE bit pattern where possible
        try:
            s = z3.simplify(z3.fpToIEEEBV(v))
            import struct

            return {"fp_bits": s.as_long(), "float": struct.unpack("<d", struct.pack("<Q", s.as_long()))[0]}
        except Exception:
            return str(v)
    return str(v)


def check_inprocess(conjuncts, timeout_ms=2000, want_model=True):
    s = z3.Solver()
    s.set("timeout", timeout_ms)
    s.add(*conjuncts)
    t0 = time.time()
    r = str(s.check())
    dt = time.time() - t0
    if r == "sat" and want_model:
        return Result("sat", model_to_dict(s.model()), dt, by="z3-inprocess")
    return Result(r, None, dt, by="z3-inprocess")


_WORKER = os.path.join(os.path.dirname(os.path.abspath(__file__)), "worker.py")


def _run_worker(path, timeout_s, tactic):
    t0 = time.time()
    try:
        p = subprocess.run(
            [PY, _WORKER, path, str(int(timeout_s * 1000)), tactic or ""],
            capture_output=True,
            text=True,
            timeout=timeout_s + 10,
        )
    except subprocess.TimeoutExpired:
        return Result("timeout", None, time.time() - t0, detail="hard timeout")
    dt = time.time() - t0
    out = p.stdout.strip().splitlines()
    if p.returncode != 0 or not out:
        return Result("error", None, dt, detail=(p.stderr or "")[-400:])
    try:
        j = json.loads(out[-1])
    except Exception:
        return Result("error", None, dt, detail=out[-1][:400])
    return Result(j["status"], j.get("model"), dt, by="z3-" + z3.get_version_string(), detail=j.get("detail", ""))


def _run_binary(path, timeout_s, binary="/usr/bin/z3"):
    t0 = time.time()
    try:
        p = subprocess.run([binary, f"-T:{int(timeout_s)}", path], capture_output=True, text=True, timeout=timeout_s + 10)
    except subprocess.TimeoutExpired:
        return Result("timeout", None, time.time() - t0, by=binary)
    txt = p.stdout.strip()
    dt = time.time() - t0
    if "(error" in txt:
        return Result("error", None, dt, by=binary, detail=txt[:300])
    first = txt.splitlines()[0] if txt else "error"
    if first not in ("sat", "unsat", "unknown", "timeout"):
        first = "error"
    return Result(first, None, dt, by=binary, detail="")


class Batch:
    """Collects queries and solves them in parallel subprocesses."""

    def __init__(self, label="q"):
        os.makedirs(WORK_ROOT, exist_ok=True)
        self.dir = tempfile.mkdtemp(prefix=f"{label}-", dir=WORK_ROOT)
        self.items = []

    def add(self, conjuncts, timeout_s=60, tactic=None, inprocess_ok=True):
        """Returns the index of the query."""
        self.items.append(dict(conj=list(conjuncts), timeout=timeout_s, tactic=tactic, inproc=inprocess_ok))
        return len(self.items) - 1

    def solve(self, second_solver=False):
        results = [None] * len(self.items)
        jobs = []
        for i, it in enumerate(self.items):
            conj = it["conj"]
            # fast path 1: the simplifier already refutes a conjunct
            triv = False
            for c in conj:
                sc = z3.simplify(c)
                if z3.is_false(sc):
                    results[i] = Result("unsat", None, 0.0, by="z3-simplify")
                    triv = True
                    break
            if triv:
                continue
            # fast path 2: purely linear queries are decided in-process (soft timeout works there)
            if it["inproc"] and len(self.items) <= 64 and not any(_nonlinear(c) for c in conj):
                r = check_inprocess(conj, timeout_ms=min(int(it["timeout"] * 1000), 20000))
                if r.status in ("sat", "unsat"):
                    results[i] = r
                    if not second_solver:
                        continue
            path = os.path.join(self.dir, f"{i}.smt2")
            with open(path, "w") as f:
                f.write(to_smt2(conj))
            jobs.append((i, path, it))
        # phase 1: chunked workers with a short soft timeout decide the (many) easy queries without
        # paying one interpreter start-up per query; whatever they leave undecided goes to phase 2
        if len(jobs) > 2 * JOBS and not second_solver:
            quick_ms = 4000
            chunks = [jobs[k::JOBS] for k in range(JOBS)]

            def run_chunk(ci, chunk):
                lst = os.path.join(self.dir, f"chunk{ci}.lst")
                with open(lst, "w") as f:
                    for (i, path, it) in chunk:
                        f.write(f"{i}\t{path}\n")
                got = {}
                hard = len(chunk) * (quick_ms / 1000.0) * 0.5 + 30
                try:
                    p = subprocess.Popen([PY, _WORKER, "--chunk", lst, str(quick_ms)], stdout=subprocess.PIPE, stderr=subprocess.DEVNULL, text=True)
                    try:
                        out, _ = p.communicate(timeout=hard)
                    except subprocess.TimeoutExpired:
                        p.kill()
                        out, _ = p.communicate()
                    for line in (out or "").splitlines():
                        try:
                            j = json.loads(line)
                            got[j["idx"]] = j
                        except Exception:
                            pass
                except Exception:
                    pass
                return got

            with cf.ThreadPoolExecutor(max_workers=JOBS) as ex:
                for got in ex.map(lambda a: run_chunk(*a), list(enumerate(chunks))):
                    for i, j in got.items():
                        if j["status"] in ("sat", "unsat"):
                            results[i] = Result(j["status"], j.get("model"), j.get("time", 0.0), by="z3-" + z3.get_version_string())
            jobs = [(i, path, it) for (i, path, it) in jobs if results[i] is None]
        if jobs:
            with cf.ThreadPoolExecutor(max_workers=JOBS) as ex:
                futs = {}
                for i, path, it in jobs:
                    if results[i] is None:
                        futs[ex.submit(_run_worker, path, it["timeout"], it["tactic"])] = ("main", i)
                    if second_solver:
                        futs[ex.submit(_run_binary, path, it["timeout"])] = ("second", i)
                seconds = {}
                for fu in cf.as_completed(futs):
                    kind, i = futs[fu]
                    if kind == "main":
                        results[i] = fu.result()
                    else:
                        seconds[i] = fu.result()
                for i, r2 in seconds.items():
                    results[i].second = (r2.status, round(r2.time, 3), r2.by)
        return results

    def cleanup(self):
        shutil.rmtree(self.dir, ignore_errors=True)


def cleanup_all():
    shutil.rmtree(WORK_ROOT, ignore_errors=True)
