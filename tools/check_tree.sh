#!/bin/bash
# usage: check_tree.sh <tree> <ID> [args]  -- ad-hoc: run a check against another checkout of py-tdgl (e.g. a
# scratch worktree carrying a seeded change) without touching /repo.  Not used by any registered command;
# evidence goes to a scratch directory.
TREE=$1; shift
cd /verif && ./setup.sh || exit 3
export TQDM_DISABLE=1 MPLBACKEND=Agg PYTHONDONTWRITEBYTECODE=1 NUMBA_DISABLE_JIT=${NUMBA_DISABLE_JIT:-0} PYTHONPATH=/verif:$TREE
export VERIF_EVIDENCE_DIR=${VERIF_EVIDENCE_DIR:-/verif/.work/evidence-adhoc}
mkdir -p $VERIF_EVIDENCE_DIR
exec /verif/.venv/bin/python -m symx.cli "$@"
