"""symx core: symbolic complex scalars over z3 reals, symbolic booleans, the path
controller (decision replay by re-execution) and the global analysis context.

Everything the code under analysis computes on these proxies becomes a z3 term; every
branch on a symbolic condition becomes a decision of the DFS controller.
"""
import fractions
import math
import time

import numpy as _np
import z3


# --------------------------------------------------------------------------------------
# control exceptions: BaseException on purpose (the code under test has `except Exception`)
class SymxAbort(BaseException):
    """Base class of engine control exceptions."""


class PathInfeasible(SymxAbort):
    pass


class Unsupported(SymxAbort):
    """An operation that has no symbolic model was reached: harness error, never a verdict."""


class UnwindBound(SymxAbort):
    """A loop bound of the harness was hit on this path (unwinding assertion)."""


# --------------------------------------------------------------------------------------
def to_real(x):
    """Python / numpy real number -> exact z3 rational."""
    if isinstance(x, z3.ExprRef):
        return x
    if isinstance(x, (bool, _np.bool_)):
        return z3.RealVal(int(x))
    if isinstance(x, (int, _np.integer)):
        return z3.RealVal(int(x))
    if isinstance(x, (float, _np.floating)):
        f = float(x)
        if math.isnan(f) or math.isinf(f):
            raise Unsupported(f"non-finite constant {f!r} entering the real-arithmetic model")
        return z3.RealVal(str(fractions.Fraction(f)))
    if isinstance(x, fractions.Fraction):
        return z3.RealVal(str(x))
    raise Unsupported(f"cannot convert {type(x)!r} to a real term")


ZERO = z3.RealVal(0)
ONE = z3.RealVal(1)


def is_zero(e):
    return z3.is_rational_value(e) and e.numerator_as_long() == 0


def simp(e):
    if not CTX.simplify:
        return e  # structure-preserving mode: intermediate terms stay sub-ASTs of later terms (staging by substitution)
    return z3.simplify(e, som=False)


def frac_of(e):
    return fractions.Fraction(e.numerator_as_long(), e.denominator_as_long())


# --------------------------------------------------------------------------------------
class Context:
    """Global state of one symbolic analysis (one harness case)."""

    def __init__(self):
        self.reset()

    def reset(self):
        self.assume = []  # global assumptions (input ranges, unit circles, sqrt definitions)
        self.assume_notes = []
        self.phase = {}  # key -> (cos, sin)
        self.phase_atoms = {}  # atom name -> (cos, sin)
        self.phase_terms = {}  # opaque phase key -> z3 term of the angle
        self.opaque_eval = {}  # name -> python function used by the float evaluator
        self.lu_log = []  # records of LU contract stub calls on the current path
        self.sqrt = {}  # sexpr -> (var, arg)
        self.fresh_n = 0
        self.uninit = []  # symbols modelling uninitialised memory
        self.ctl = Controller(self)
        self.defined = []  # (kind, term, pc snapshot) definedness obligations
        self.inputs = {}  # name -> z3 var (declared symbolic inputs)
        self.lu_contracts = []  # list of z3 equalities from LU stubs (also in path assumptions)
        self.opaque = {}  # uninterpreted function applications
        self.path_assume = []  # assumptions added during the current path (LU contracts, stubs)
        self.stats = dict(feas_queries=0, feas_time=0.0, merges=0)
        self.simplify = True
        self.trace_calls = False
        self.calls = []  # (facade function name, args) when trace_calls is on
        self.merge = False  # reuse aux variables for terms that are equal modulo a proven lemma
        self.abstract_div = False  # divisions by non-constant terms become definitional aux variables
        self.aux_fp = []  # (kind, fingerprint, var(s), term(s))
        self.quot = {}  # quotient var name -> (num, den)
        self.quot_by_key = {}
        self.lemmas = []  # (name, claim, pc, path_assume) obligations that justify merges

    def fresh(self, prefix):
        self.fresh_n += 1
        return z3.Real(f"{prefix}!{self.fresh_n}")

    def add_assume(self, e, note=None):
        self.assume.append(e)
        if note:
            self.assume_notes.append(note)

    def add_path_assume(self, e):
        """An assumption that holds only on the current path (e.g. contract of a stub call)."""
        self.path_assume.append(e)




# --------------------------------------------------------------------------------------
def _nonlinear(e, _cache=None):
    """True if the term contains a product/division/power of two non-constant factors."""
    seen = set()
    stack = [e]
    while stack:
        t = stack.pop()
        i = t.get_id()
        if i in seen:
            continue
        seen.add(i)
        if z3.is_app(t):
            k = t.decl().kind()
            ch = t.children()
            if k == z3.Z3_OP_MUL:
                if sum(0 if z3.is_rational_value(c) else 1 for c in ch) > 1:
                    return True
            elif k in (z3.Z3_OP_DIV, z3.Z3_OP_POWER):
                if not z3.is_rational_value(ch[1]):
                    return True
            elif k == z3.Z3_OP_UNINTERPRETED and ch:
                pass
            stack.extend(ch)
    return False


class Controller:
    """DFS over symbolic branch decisions by re-execution with a decision plan."""

    def __init__(self, ctx):
        self.ctx = ctx
        self.plan = []
        self.pos = 0
        self.pc = []
        self.trace = []
        self.pending = []
        self.feasibility = "linear"  # "linear" | "all" | "none"
        self.feas_timeout_ms = 1000
        self.decisions = 0
        self.concrete = False

    def start_path(self, plan):
        self.plan = list(plan)
        self.pos = 0
        self.pc = []
        self.trace = []
        self.pending = []
        self.ctx.path_assume = []
        self.ctx.lu_log = []
        self.ctx.defined = []
        self.ctx.calls = []

    def _feasible(self, extra):
        s = z3.Solver()
        s.set("timeout", self.feas_timeout_ms)
        s.add(*self.ctx.assume)
        s.add(*self.ctx.path_assume)
        s.add(*self.pc)
        s.add(extra)
        t0 = time.time()
        r = s.check()
        self.ctx.stats["feas_queries"] += 1
        self.ctx.stats["feas_time"] += time.time() - t0
        return str(r) != "unsat"  # unknown counts as feasible

    def decide(self, cond):
        sc = z3.simplify(cond)
        if z3.is_true(sc):
            return True
        if z3.is_false(sc):
            return False
        if self.ctx.simplify:
            cond = sc  # else: keep the structure (staging by substitution needs the sub-terms)
        self.decisions += 1
        if self.pos < len(self.plan):
            v = self.plan[self.pos]
        else:
            check = self.feasibility == "all" or (
                self.feasibility == "linear"
                and not _nonlinear(cond)
                and not any(_nonlinear(p) for p in self.pc[-8:])
            )
            if check:
                t_ok = self._feasible(cond)
                f_ok = self._feasible(z3.Not(cond))
            else:
                t_ok = f_ok = True
            if t_ok and f_ok:
                v = True
                self.pending.append(self.trace + [False])
            elif t_ok:
                v = True
            elif f_ok:
                v = False
            else:
                raise PathInfeasible("both branches infeasible")
        self.trace.append(v)
        self.pos += 1
        self.pc.append(cond if v else z3.Not(cond))
        return v

    def choose(self, n, label=None):
        """n-ary nondeterministic choice (forks over range(n))."""
        if n <= 0:
            raise PathInfeasible("empty choice")
        if n == 1:
            return 0
        if self.pos < len(self.plan):
            v = self.plan[self.pos]
        else:
            v = 0
            for k in range(n - 1, 0, -1):
                self.pending.append(self.trace + [k])
        self.trace.append(v)
        self.pos += 1
        return v


CTX = Context()


# --------------------------------------------------------------------------------------
class SymBool:
    __slots__ = ("e",)
    __array_ufunc__ = None

    def __init__(self, e):
        self.e = e

    @staticmethod
    def of(x):
        if isinstance(x, SymBool):
            return x
        return SymBool(z3.BoolVal(bool(x)))

    def __bool__(self):
        return CTX.ctl.decide(self.e)

    def __and__(s, o):
        return SymBool(z3.And(s.e, SymBool.of(o).e))

    __rand__ = __and__

    def __or__(s, o):
        return SymBool(z3.Or(s.e, SymBool.of(o).e))

    __ror__ = __or__

    def __invert__(s):
        return SymBool(z3.Not(s.e))

    def __eq__(s, o):
        if isinstance(o, (SymBool, bool, _np.bool_)):
            return SymBool(s.e == SymBool.of(o).e)
        return NotImplemented

    def __hash__(s):
        return id(s)

    def __repr__(s):
        return f"SymBool({s.e})"


def _is_quantity(o):
    return hasattr(o, "units") and hasattr(o, "magnitude")


class Sc:
    """Symbolic complex scalar: a pair of z3 real terms."""

    __slots__ = ("re", "im")
    __array_ufunc__ = None
    __array_priority__ = 1000

    def __init__(self, re, im=ZERO):
        self.re = re
        self.im = im

    @staticmethod
    def of(x):
        if isinstance(x, Sc):
            return x
        if isinstance(x, (complex, _np.complexfloating)):
            return Sc(to_real(x.real), to_real(x.imag))
        if isinstance(x, SymBool):
            return Sc(z3.If(x.e, ONE, ZERO))
        return Sc(to_real(x))

    def isreal(self):
        if is_zero(self.im):
            return True
        return is_zero(z3.simplify(self.im))

    def _defer(self, o):
        from .arr import SA

        return isinstance(o, SA) or _is_quantity(o)

    def _lift(self, o, f):
        """o is an ndarray: map elementwise into an SA."""
        from .arr import SA

        return SA(_np.frompyfunc(lambda b: f(self, b), 1, 1)(_np.asarray(o, dtype=object)))

    def __add__(s, o):
        if s._defer(o):
            return NotImplemented
        if isinstance(o, _np.ndarray):
            return s._lift(o, lambda a, b: a + b)
        o = Sc.of(o)
        return Sc(simp(s.re + o.re), ZERO if (is_zero(s.im) and is_zero(o.im)) else simp(s.im + o.im))

    __radd__ = __add__

    def __sub__(s, o):
        if s._defer(o):
            return NotImplemented
        if isinstance(o, _np.ndarray):
            return s._lift(o, lambda a, b: a - b)
        o = Sc.of(o)
        return Sc(simp(s.re - o.re), ZERO if (is_zero(s.im) and is_zero(o.im)) else simp(s.im - o.im))

    def __rsub__(s, o):
        if s._defer(o):
            return NotImplemented
        if isinstance(o, _np.ndarray):
            return s._lift(o, lambda a, b: b - a)
        return Sc.of(o) - s

    def __neg__(s):
        return Sc(simp(-s.re), ZERO if is_zero(s.im) else simp(-s.im))

    def __pos__(s):
        return s

    def __mul__(s, o):
        if s._defer(o):
            return NotImplemented
        if isinstance(o, _np.ndarray):
            return s._lift(o, lambda a, b: a * b)
        o = Sc.of(o)
        sr, orr = is_zero(s.im), is_zero(o.im)
        if sr and orr:
            return Sc(simp(s.re * o.re))
        if sr:
            return Sc(simp(s.re * o.re), simp(s.re * o.im))
        if orr:
            return Sc(simp(s.re * o.re), simp(s.im * o.re))
        return Sc(simp(s.re * o.re - s.im * o.im), simp(s.re * o.im + s.im * o.re))

    __rmul__ = __mul__

    def __truediv__(s, o):
        if s._defer(o):
            return NotImplemented
        if isinstance(o, _np.ndarray):
            return s._lift(o, lambda a, b: a / b)
        o = Sc.of(o)
        if is_zero(o.im):
            _note_div(o.re)
            if CTX.abstract_div and not z3.is_rational_value(o.re):
                return _quotient(s, o.re)
            return Sc(simp(s.re / o.re), ZERO if is_zero(s.im) else simp(s.im / o.re))
        d = simp(o.re * o.re + o.im * o.im)
        _note_div(d)
        n = s * o.conjugate()
        if CTX.abstract_div:
            return _quotient(n, d)
        return Sc(simp(n.re / d), simp(n.im / d))

    def __rtruediv__(s, o):
        if s._defer(o):
            return NotImplemented
        if isinstance(o, _np.ndarray):
            return s._lift(o, lambda a, b: b / a)
        return Sc.of(o) / s

    def __pow__(s, k):
        if s._defer(k):
            return NotImplemented
        if isinstance(k, Sc):
            if z3.is_rational_value(k.re) and is_zero(k.im):
                f = frac_of(k.re)
                if f.denominator == 1:
                    k = int(f)
                elif f == fractions.Fraction(1, 2):
                    return s.sqrt()
        if isinstance(k, (float, _np.floating)) and float(k).is_integer():
            k = int(k)
        if isinstance(k, (float, _np.floating)) and float(k) == 0.5:
            return s.sqrt()
        if isinstance(k, (float, _np.floating)) and float(2 * k).is_integer():
            # half-integer power: x ** (p/2) = sqrt(x) ** p
            return s.sqrt() ** int(round(2 * float(k)))
        if isinstance(k, (int, _np.integer)):
            k = int(k)
            if k < 0:
                return Sc(ONE) / (s ** (-k))
            out = Sc(ONE)
            for _ in range(k):
                out = out * s
            return out
        return opaque_fn("pow", s, Sc.of(k))

    def __rpow__(s, b):
        if s._defer(b):
            return NotImplemented
        return opaque_fn("pow", Sc.of(b), s)

    def conjugate(s):
        return Sc(s.re, ZERO if is_zero(s.im) else simp(-s.im))

    conj = conjugate

    @property
    def real(s):
        return Sc(s.re)

    @property
    def imag(s):
        return Sc(s.im)

    def exp(s):
        if not is_zero(z3.simplify(s.re)):
            raise Unsupported("exp of a term with non-zero real part")
        return exp_i(s.im)

    def sqrt(s):
        if not s.isreal():
            raise Unsupported("sqrt of complex term")
        arg = simp(s.re)
        if z3.is_rational_value(arg):
            f = frac_of(arg)
            if f >= 0:
                r = fractions.Fraction(math.isqrt(f.numerator), math.isqrt(f.denominator))
                if r * r == f:
                    return Sc(z3.RealVal(str(r)))
        key = arg.sexpr()
        if key not in CTX.sqrt:
            merged = _try_merge("sqrt", [arg]) if CTX.merge else None
            if merged is not None:
                CTX.sqrt[key] = (merged[0], arg)
            else:
                v = CTX.fresh("sqrt")
                CTX.sqrt[key] = (v, arg)
                # guarded definition: always satisfiable, so unreachable sqrt(negative) never makes a path vacuous
                CTX.assume.append(z3.Implies(arg >= 0, z3.And(v >= 0, v * v == arg)))
                _register_aux("sqrt", [v], [arg])
        CTX.defined.append(("sqrt", arg, list(CTX.ctl.pc), list(CTX.path_assume)))
        return Sc(CTX.sqrt[key][0])

    def __abs__(s):
        if s.isreal():
            return Sc(simp(z3.If(s.re >= 0, s.re, -s.re)))
        return Sc(simp(s.re * s.re + s.im * s.im)).sqrt()

    # comparisons ----------------------------------------------------------------
    def _cmp(s, o, op):
        if s._defer(o):
            return NotImplemented
        if isinstance(o, _np.ndarray):
            return s._lift(o, lambda a, b: a._cmp(b, op))
        if isinstance(o, (float, _np.floating)) and math.isinf(float(o)):
            # every finite real compares with +-inf like 0 does
            return SymBool(z3.BoolVal(bool(op(0.0, float(o)))))
        o = Sc.of(o)
        if not (s.isreal() and o.isreal()):
            raise Unsupported("ordering comparison of complex terms")
        return SymBool(op(s.re, o.re))

    def __lt__(s, o):
        return s._cmp(o, lambda a, b: a < b)

    def __le__(s, o):
        return s._cmp(o, lambda a, b: a <= b)

    def __gt__(s, o):
        return s._cmp(o, lambda a, b: a > b)

    def __ge__(s, o):
        return s._cmp(o, lambda a, b: a >= b)

    def __eq__(s, o):
        if o is None:
            return False
        if s._defer(o):
            return NotImplemented
        if isinstance(o, _np.ndarray):
            return s._lift(o, lambda a, b: a == b)
        if not isinstance(o, (Sc, int, float, complex, _np.number, fractions.Fraction, SymBool)):
            return NotImplemented
        o = Sc.of(o)
        return SymBool(z3.And(s.re == o.re, s.im == o.im))

    def __ne__(s, o):
        r = s.__eq__(o)
        if r is NotImplemented:
            return r
        if r is False:
            return True
        if isinstance(r, SymBool):
            return ~r
        return r  # SA

    def __hash__(s):
        return id(s)

    def __bool__(s):
        return CTX.ctl.decide(z3.Or(s.re != 0, s.im != 0))

    def __format__(s, spec):
        return "<sym>"

    def __repr__(s):
        if is_zero(s.im):
            return f"Sc({s.re})"
        return f"Sc({s.re}, {s.im})"

    def item(s):
        return s

    # numpy scalar duck typing
    @property
    def ndim(s):
        return 0

    @property
    def shape(s):
        return ()

    def __float__(s):
        raise Unsupported("float() of a symbolic scalar (module global `float` must be shadowed)")

    def __int__(s):
        raise Unsupported("int() of a symbolic scalar")

    def __index__(s):
        raise Unsupported("symbolic scalar used as index")

    def __complex__(s):
        raise Unsupported("complex() of a symbolic scalar")


def _quotient(num, den):
    """Definitional abstraction of num/den (den a real term): q with den != 0 -> q*den == num."""
    parts = []
    for n in (num.re, num.im):
        if is_zero(n):
            parts.append(ZERO)
            continue
        key = "(/ " + n.sexpr() + " " + den.sexpr() + ")"
        if key in CTX.quot_by_key:
            parts.append(CTX.quot_by_key[key])
            continue
        merged = _try_merge("quot", [n, den]) if CTX.merge else None
        if merged is not None:
            q = merged[0]
        else:
            q = CTX.fresh("quot")
            CTX.quot[q.decl().name()] = (n, den)
            CTX.assume.append(z3.Implies(den != 0, q * den == n))
            _register_aux("quot", [q], [n, den])
        CTX.quot_by_key[key] = q
        parts.append(q)
    return Sc(parts[0], parts[1])


def _fingerprint(kind, terms):
    from . import feval

    fps = []
    for seed in (1, 2, 3):
        env = feval.HashEnv(CTX, seed)
        try:
            vals = [env.eval(t) for t in terms]
            if kind == "sqrt":
                fps.append(vals[0])
            else:
                if vals[1] == 0:
                    return None
                fps.append(vals[0] / vals[1])
        except (feval.Reject, KeyError, NotImplementedError, OverflowError, ZeroDivisionError):
            return None
    return tuple(fps)


def _register_aux(kind, vars_, terms):
    if not CTX.merge:
        return
    fp = _fingerprint(kind, terms)
    if fp is not None:
        CTX.aux_fp.append((kind, fp, vars_, terms))


def _try_merge(kind, terms):
    fp = _fingerprint(kind, terms)
    if fp is None:
        return None
    for (k2, fp2, vars2, terms2) in CTX.aux_fp:
        if k2 != kind:
            continue
        if all((a == b) or abs(a - b) <= 1e-9 * max(abs(a), abs(b)) for a, b in zip(fp, fp2)):
            if kind == "sqrt":
                claim = terms[0] == terms2[0]
            else:  # n/d == n2/d2  <=  n*d2 == n2*d (both denominators non-zero is a definedness obligation)
                claim = terms[0] * terms2[1] == terms2[0] * terms[1]
            # stated without path condition: once valid it justifies the merge on every path of the case
            CTX.lemmas.append((f"merge-{kind}:{vars2[0]}", claim, [], []))
            CTX.stats["merges"] += 1
            return vars2
    return None


def _note_div(den):
    """Record a definedness obligation `den != 0` unless it is a non-zero constant."""
    if z3.is_rational_value(den):
        if den.numerator_as_long() == 0:
            CTX.defined.append(("div", den, list(CTX.ctl.pc), list(CTX.path_assume)))
        return
    CTX.defined.append(("div", den, list(CTX.ctl.pc), list(CTX.path_assume)))


# --------------------------------------------------------------------------------------
# phase algebra: exp(i*phi) for phi linear in declared atoms -> unit-circle pairs
def declare_phase(name):
    """Declare a phase atom (a real variable that only ever appears inside exp(i*...))."""
    v = z3.Real(name)
    c, s = z3.Real(f"cos_{name}"), z3.Real(f"sin_{name}")
    CTX.assume.append(c * c + s * s == 1)
    CTX.phase_atoms[name] = (c, s)
    return v


def linearize(e):
    """z3 real term -> ({varname: Fraction}, Fraction const); raises NotImplementedError."""
    if z3.is_rational_value(e):
        return {}, frac_of(e)
    if z3.is_const(e):
        return {e.decl().name(): fractions.Fraction(1)}, fractions.Fraction(0)
    k = e.decl().kind()
    ch = e.children()
    if k == z3.Z3_OP_ADD:
        out, c0 = {}, fractions.Fraction(0)
        for c in ch:
            d, cc = linearize(c)
            c0 += cc
            for n, q in d.items():
                out[n] = out.get(n, 0) + q
        return out, c0
    if k == z3.Z3_OP_SUB:
        out, c0 = linearize(ch[0])
        out = dict(out)
        for c in ch[1:]:
            d, cc = linearize(c)
            c0 -= cc
            for n, q in d.items():
                out[n] = out.get(n, 0) - q
        return out, c0
    if k == z3.Z3_OP_UMINUS:
        d, c0 = linearize(ch[0])
        return {n: -q for n, q in d.items()}, -c0
    if k == z3.Z3_OP_MUL:
        f = fractions.Fraction(1)
        rest = []
        for c in ch:
            if z3.is_rational_value(c):
                f *= frac_of(c)
            else:
                rest.append(c)
        if not rest:
            return {}, f
        if len(rest) == 1:
            d, c0 = linearize(rest[0])
            return {n: q * f for n, q in d.items()}, c0 * f
    if k == z3.Z3_OP_DIV and z3.is_rational_value(ch[1]):
        d, c0 = linearize(ch[0])
        f = frac_of(ch[1])
        return {n: q / f for n, q in d.items()}, c0 / f
    raise NotImplementedError(f"nonlinear phase {e}")


def _unit_pair(key, negkey):
    if key in CTX.phase:
        c, s = CTX.phase[key]
        return Sc(c, s)
    if negkey in CTX.phase:
        c, s = CTX.phase[negkey]
        return Sc(c, simp(-s))
    n = len(CTX.phase)
    c, s = z3.Real(f"cos!{n}"), z3.Real(f"sin!{n}")
    CTX.assume.append(c * c + s * s == 1)
    CTX.phase[key] = (c, s)
    return Sc(c, s)


def exp_i(phi):
    """exp(+i*phi) for a z3 real term phi."""
    phi = z3.simplify(phi, som=True)
    if is_zero(phi):
        return Sc(ONE)
    try:
        d, c0 = linearize(phi)
    except NotImplementedError:
        neg = z3.simplify(-phi, som=True)
        key, negkey = ("opaque", phi.sexpr()), ("opaque", neg.sexpr())
        CTX.phase_terms.setdefault(key, phi)
        CTX.phase_terms.setdefault(negkey, neg)
        return _unit_pair(key, negkey)
    d = {n: q for n, q in d.items() if q != 0}
    if c0 != 0:
        raise Unsupported(f"constant phase offset {c0} (would need cos/sin of a constant)")
    out = Sc(ONE)
    resid = {}
    for n, q in d.items():
        if n in CTX.phase_atoms and q.denominator == 1:
            c, s = CTX.phase_atoms[n]
            g = Sc(c, s) if q > 0 else Sc(c, simp(-s))
            for _ in range(abs(int(q))):
                out = out * g
        else:
            resid[n] = q
    if resid:
        key = tuple(sorted(resid.items()))
        neg = tuple(sorted((n, -q) for n, q in resid.items()))
        out = out * _unit_pair(key, neg)
    return out


def phase_axioms(max_keys=64):
    """Functional-consistency (Ackermann) axioms for the uninterpreted unit pairs:
    equal angles give equal pairs, opposite angles conjugate pairs, zero angle gives (1, 0)."""
    items = []
    for key, (c, s) in CTX.phase.items():
        if key and key[0] == "opaque":
            ang = CTX.phase_terms[key]
        else:
            ang = z3.Sum(*[z3.RealVal(str(q)) * z3.Real(n) for n, q in key]) if len(key) > 1 else z3.RealVal(str(key[0][1])) * z3.Real(key[0][0])
        items.append((ang, c, s))
    ax = []
    for ang, c, s in items:
        ax.append(z3.Implies(ang == 0, z3.And(c == 1, s == 0)))
    if len(items) <= max_keys:
        for i in range(len(items)):
            for j in range(i + 1, len(items)):
                a1, c1, s1 = items[i]
                a2, c2, s2 = items[j]
                ax.append(z3.Implies(a1 == a2, z3.And(c1 == c2, s1 == s2)))
                ax.append(z3.Implies(a1 == -a2, z3.And(c1 == c2, s1 == -s2)))
    return ax


# --------------------------------------------------------------------------------------
_opaque_decls = {}


def opaque_fn(name, *args):
    """Uninterpreted real function of real arguments (pow, user leaf functions ...)."""
    flat = []
    for a in args:
        a = Sc.of(a)
        if not a.isreal():
            raise Unsupported(f"opaque function {name} of a complex argument")
        flat.append(a.re)
    key = (name, len(flat))
    if key not in _opaque_decls:
        _opaque_decls[key] = z3.Function(name, *([z3.RealSort()] * (len(flat) + 1)))
    return Sc(_opaque_decls[key](*flat))


class _SymFloatMeta(type):
    def __instancecheck__(cls, x):
        return isinstance(x, float) or (isinstance(x, Sc) and x.isreal())


class sym_float(metaclass=_SymFloatMeta):
    """Replacement of the builtin `float` in patched modules: conversion keeps symbolic reals,
    `isinstance(x, float)` accepts them, and it is accepted where code passes `dtype=float`."""

    _is_sym_float = True

    def __new__(cls, x=0.0):
        if isinstance(x, Sc):
            if not x.isreal():
                raise Unsupported("float() of a complex symbolic scalar")
            return x
        from .arr import SA

        if isinstance(x, SA):
            if x.data.size != 1:
                raise TypeError("only size-1 arrays can be converted to Python scalars")
            return sym_float(x.data.ravel()[0])
        return float(x)


def sym_complex(x=0.0, y=None):
    if isinstance(x, Sc) and y is None:
        return x
    if y is None:
        return complex(x)
    return complex(x, y)
