"""C02 - Each step solves the discretised TDGL equation on the physical branch.

The real static method `TDGLSolver.solve_for_psi_squared` is executed on symbolic per-site
inputs (psi, mu, epsilon, gamma, u, dt and an arbitrary covariant-Laplacian action).  The
oracle is the documentation's eqs. z, w, quad-1, quad-2, quad-root, re-typed here.

Staging: the intermediate values w, z that the real code computes are captured at the numpy
facade (arguments of its `absolute` calls) and (1) proven equal to the documented w, z; (2)
generalised to fresh complex variables W, Z by substitution into the complete query, so that
the algebraic claims about the returned psi', |psi'|^2 are decided for *all* W, Z (which covers
every input).  A `sat` on a generalised query is not an input model: the claim is then searched
at input level and only a replayed violation is reported."""
import numpy as np
import z3

from symx import core, engine
from symx.core import CTX, Sc
from symx.engine import Case

from . import common as K

ID = "C02"
ENCODED = ["tdgl.solver.solver:TDGLSolver.solve_for_psi_squared", "tdgl.solver.solver:TDGLSolver.adaptive_euler_step"]
BOUNDS = {
    "quick": dict(sites=[1, 2], arithmetic="exact reals (QF_NRA); per-site algebra is site independent"),
    "thorough": dict(sites=[1, 2, 3], arithmetic="exact reals (QF_NRA); per-site algebra is site independent"),
}
ASSUMPTIONS = [
    "psi, Laplacian action arbitrary complex; mu real; epsilon in [-1,1]; gamma >= 0; u > 0; dt > 0",
    "exp(-i mu dt) is an arbitrary unit complex number (covers every mu*dt)",
    "kernel cases: abs_sq_psi is an arbitrary non-negative value of its own (inside the screening loop TDGLSolver.update passes the step-n value with the psi of the previous iterate); retry / stability cases: abs_sq_psi = |psi|^2",
    "exact real arithmetic: rounding of the discriminant near 0 and overflow are outside the claim",
]
OUTSIDE = ["IEEE rounding near discriminant = 0", "overflow / NaN inputs", "cupy branch"]
SIMPLIFY = False
TRACE_CALLS = True
TV_SAMPLES = {"quick": 4, "thorough": 6}
HUNT_SAMPLES = 200


def patch_spec(case):
    spec = engine.std_patch("tdgl.solver.solver")
    from .solver_setup import NullLogger

    spec["tdgl.solver.solver"]["logger"] = NullLogger()
    return spec


def cases(tier, seed):
    out = [Case(f"kernel:n={n}", n=n, seed=seed) for n in BOUNDS[tier]["sites"]] + [Case("exists-solution", n=0, seed=seed)]
    out.append(Case("stability:weak-inelastic-scattering", n=-2, seed=seed))
    out.append(Case("retry:R=1", n=-1, R=1, seed=seed))
    if tier == "thorough":
        out.append(Case("retry:R=2", n=-1, R=2, seed=seed))
    return out


class _OpaqueLaplacian:
    def __init__(self, action):
        self.action = action

    def __matmul__(self, psi):
        return self.action


def ref_wz(H, psi, lap, mu, eps, gamma, u, dt, absq=None):
    """Documentation eqs. (z) and (w); `absq` is the |psi^n|^2 the caller hands over (TDGLSolver.update passes the
    value of step n together with the psi of the previous screening iterate: not necessarily |psi|^2)."""
    if H.mode == "sym":
        U = H.exp_i(-(mu * dt))
        absq = H.abs2(psi) if absq is None else absq
        root = H.sqrt(1 + gamma * gamma * absq)
    else:
        U = np.exp(-1j * mu * dt)
        absq = abs(psi) ** 2 if absq is None else absq
        root = np.sqrt(1 + gamma**2 * absq)
    z = (gamma * gamma / 2) * U * psi
    w = z * absq + U * (psi + (dt / u) * root * ((eps - absq) * psi + lap))
    return w, z, absq


def body_retry(H, case):
    """The step that `adaptive_euler_step` answers (possibly after retries with a reduced time
    step) is the kernel's answer *for the time step it reports*."""
    from types import SimpleNamespace

    from tdgl.solver.solver import TDGLSolver

    psi, lap, mu = H.cplx("psi"), H.cplx("lap"), H.real("mu")
    eps = H.real("eps", lo=-1.0, hi=1.0)
    gamma, u, dt0 = H.real("gamma", nonneg=True), H.real("u", pos=True), H.real("dt", pos=True)
    mult = H.real("mult", lo=0.0, hi=1.0, lo_open=True, hi_open=True)
    solver = object.__new__(TDGLSolver)
    solver.options = SimpleNamespace(adaptive=True, max_solve_retries=case.R, adaptive_time_step_multiplier=mult)
    solver.gamma, solver.u = gamma, u
    arr = H.array([psi]) if H.mode == "sym" else np.array([psi], dtype=complex)
    absq = H.array([H.abs2(psi)]) if H.mode == "sym" else np.abs(arr) ** 2
    lapop = _OpaqueLaplacian(H.array([lap]) if H.mode == "sym" else np.array([lap], dtype=complex))
    solver.operators = SimpleNamespace(psi_laplacian=lapop)
    try:
        new_psi, X, dt = solver.adaptive_euler_step(3, arr, absq, H.array([mu]), H.array([eps]), dt0)
    except RuntimeError:
        return
    ref = TDGLSolver.solve_for_psi_squared(psi=arr, abs_sq_psi=absq, mu=H.array([mu]), epsilon=H.array([eps]), gamma=gamma, u=u, dt=dt, psi_laplacian=lapop)
    H.prove("the reported time step is one the kernel answers", ref is not None)
    if ref is None:
        return
    H.prove_eq("psi' is the kernel's answer for the reported dt", K.at(new_psi, 0), K.at(ref[0], 0))
    H.prove_eq("|psi'|^2 is the kernel's answer for the reported dt", K.at(X, 0), K.at(ref[1], 0))
    H.prove("reported dt <= tentative dt", dt <= dt0)
    H.prove("reported dt > 0", dt > 0)


def body_stability(H, case):
    """'... on the branch that stays finite when gamma or psi vanish', within the floating-point range: the
    reported |psi'|^2 must not be computed by a formula that cancels as z -> 0.  Decided as a conditioning
    claim over the reals: one rounding error of the square root of the discriminant (relative 2^-52) changes
    the reported |psi'|^2 by less than 1e-4 of its value (for the documented formula 2|w|^2/((2c+1)+sqrt) the
    change is below 2^-52; for (2c+1-sqrt)/(2|z|^2) it is unbounded as z -> 0).  A counter-example is
    replayed on the real kernel in doubles, where the reported |psi'|^2 must equal |reported psi'|^2 to 1e-6."""
    from tdgl.solver.solver import TDGLSolver

    psi, lap = H.cplx("psi", lo=-1.5, hi=1.5), H.cplx("lap", lo=-2.0, hi=2.0)
    mu, eps = H.real("mu", lo=-2.0, hi=2.0), H.real("eps", lo=-1.0, hi=1.0)
    gamma = H.real("gamma", lo=0.0, hi=1e-6)  # weak inelastic scattering: z is tiny but not zero
    u, dt = H.real("u", lo=0.5, hi=6.0), H.real("dt", lo=1e-4, hi=0.1)
    eta = H.real("eta", lo=-2.0**-52, hi=2.0**-52)
    psi_arr = H.array([psi]) if H.mode == "sym" else np.array([psi], dtype=complex)
    absq_arr = H.array([H.abs2(psi)]) if H.mode == "sym" else np.abs(psi_arr) ** 2
    lap_arr = H.array([lap]) if H.mode == "sym" else np.array([lap], dtype=complex)
    if H.mode == "sym":
        CTX.calls.clear()
    out = TDGLSolver.solve_for_psi_squared(psi=psi_arr, abs_sq_psi=absq_arr, mu=H.array([mu]), epsilon=H.array([eps]), gamma=gamma, u=u, dt=dt,
                                           psi_laplacian=_OpaqueLaplacian(lap_arr))
    if out is None:
        return
    new_psi, X = out
    Xi, Pi = K.at(X, 0), K.at(new_psi, 0)
    name = "one rounding error of sqrt(discriminant) changes the reported |psi'|^2 by < 1e-4 (no cancellation as z -> 0)"
    if H.mode == "sym":
        sq_args = [a[0] for (nm, a) in CTX.calls if nm == "sqrt"]
        abs_args = [a[0] for (nm, a) in CTX.calls if nm in ("absolute", "abs")]
        if not sq_args or len(abs_args) != 2:
            raise engine.HarnessError("the kernel no longer computes |w|, |z| and one square root as expected: the stability claim has to be restated")
        s_var = Sc.of(K.at(sq_args[-1], 0)).sqrt()  # the auxiliary variable standing for sqrt(discriminant)
        # generalise the code's w, z to arbitrary complex W, Z (as in the algebraic claims)
        wc, zc = Sc.of(K.at(abs_args[0], 0)), Sc.of(K.at(abs_args[1], 0))
        W, Z = Sc(z3.Real("W0.re"), z3.Real("W0.im")), Sc(z3.Real("Z0.re"), z3.Real("Z0.im"))
        H.subst = [(wc.re, W.re), (wc.im, W.im), (zc.re, Z.re), (zc.im, Z.im)]
        Xs = Sc.of(Xi)
        Xp = Sc(z3.substitute(Xs.re, (s_var.re, s_var.re * (1 + eta.re))))
        b = 2 * (K.re(wc) * K.re(zc) + K.im(wc) * K.im(zc)) + 1
        dre, tol = Xp.re - Xs.re, core.to_real(1e-4) * Xs.re  # (the reported |psi'|^2 is real: claimed by the algebraic cases)
        claim = z3.Implies((b > 0).e, z3.And(dre <= tol, -dre <= tol))
        H.prove(name, core.SymBool(claim), timeout=120, slice=True)
        H.subst = None
    else:
        m2 = abs(Pi) ** 2
        H.prove(name, abs(Xi - m2) <= 1e-6 * max(abs(Xi), m2, 1e-300))


def body(H, case):
    if case.n == -2:
        return body_stability(H, case)
    if case.n == -1:
        return body_retry(H, case)
    if case.n == 0:
        return body_exists(H, case)
    from tdgl.solver.solver import TDGLSolver

    n = case.n
    psi = [H.cplx(f"psi{i}") for i in range(n)]
    lap = [H.cplx(f"lap{i}") for i in range(n)]
    mu = [H.real(f"mu{i}") for i in range(n)]
    eps = [H.real(f"eps{i}", lo=-1.0, hi=1.0) for i in range(n)]
    gamma = H.real("gamma", nonneg=True)
    u = H.real("u", pos=True)
    dt = H.real("dt", pos=True)
    psi_arr = H.array(psi) if H.mode == "sym" else np.array(psi, dtype=complex)
    # |psi^n|^2 as handed over by the caller: an unknown of its own (>= 0).  Inside the screening loop `update` passes
    # the step-n value together with the psi of the previous iterate, so it need not be |psi|^2 of the psi argument;
    # the consistent call is the valuation absq = |psi|^2
    absq = [H.real(f"absq{i}", nonneg=True) for i in range(n)]
    absq_arr = H.array(absq) if H.mode == "sym" else np.array(absq, dtype=float)
    lap_arr = H.array(lap) if H.mode == "sym" else np.array(lap, dtype=complex)
    if H.mode == "sym":
        CTX.calls.clear()
    out = TDGLSolver.solve_for_psi_squared(psi=psi_arr, abs_sq_psi=absq_arr, mu=H.array(mu), epsilon=H.array(eps),
                                           gamma=gamma, u=u, dt=dt, psi_laplacian=_OpaqueLaplacian(lap_arr))
    refs = [ref_wz(H, psi[i], lap[i], mu[i], eps[i], gamma, u, dt, absq=absq[i]) for i in range(n)]

    w_code = z_code = None
    if H.mode == "sym":
        abs_args = [a[0] for (nm, a) in CTX.calls if nm in ("absolute", "abs")]
        if len(abs_args) == 2:
            w_code, z_code = abs_args[0], abs_args[1]
        # else: this path of the code does not compute |w|, |z| in the usual way (e.g. an early
        # return): no staging, the claims are stated directly against the documented w, z

    def abstraction():
        """code-level w_i, z_i -> fresh W_i, Z_i (justified by 'code w = documented w' etc.)"""
        pairs, WZ = [], []
        for i in range(n):
            wc, zc = Sc.of(K.at(w_code, i)), Sc.of(K.at(z_code, i))
            W = Sc(z3.Real(f"W{i}.re"), z3.Real(f"W{i}.im"))
            Z = Sc(z3.Real(f"Z{i}.re"), z3.Real(f"Z{i}.im"))
            pairs += [(wc.re, W.re), (wc.im, W.im), (zc.re, Z.re), (zc.im, Z.im)]
            WZ.append((wc, zc))
        return pairs, WZ

    def disc_of(w, z):
        c = K.re(w) * K.re(z) + K.im(w) * K.im(z)
        b = 2 * c + 1
        return b * b - 4 * H.abs2(z) * H.abs2(w), b

    for i in range(n):
        if H.mode == "sym" and w_code is not None:
            dep = [f"[{i}]", "refused =>"]
            H.prove_eq(f"code w = documented w [{i}]", Sc.of(K.at(w_code, i)), refs[i][0], confirm_by=dep)
            H.prove_eq(f"code z = documented z [{i}]", Sc.of(K.at(z_code, i)), refs[i][1], confirm_by=dep)
        else:
            H.prove_eq(f"code w = documented w [{i}]", refs[i][0], refs[i][0])
            H.prove_eq(f"code z = documented z [{i}]", refs[i][1], refs[i][1])
    if H.mode == "sym" and w_code is not None:
        pairs, WZ = abstraction()
    else:
        pairs, WZ = None, [(refs[i][0], refs[i][1]) for i in range(n)]

    if out is None:
        # refused: the documented discriminant is negative at some site, i.e. no solution exists there
        H.subst = pairs
        if H.mode == "sym":
            neg = z3.Or(*[(disc_of(*WZ[i])[0] < 0).e for i in range(n)])
            H.prove("refused => documented discriminant negative at some site", core.SymBool(neg), slice=True)
        else:
            H.prove("refused => documented discriminant negative at some site", any(disc_of(*WZ[i])[0] < 0 for i in range(n)))
        H.subst = None
        return
    new_psi, X = out
    for i in range(n):
        t = f"[{i}]"
        wq, zq = WZ[i]
        H.subst = pairs
        Xi, Pi = K.at(X, i), K.at(new_psi, i)
        cq = K.re(wq) * K.re(zq) + K.im(wq) * K.im(zq)
        b = 2 * cq + 1
        z2, w2 = H.abs2(zq), H.abs2(wq)
        disc = b * b - 4 * z2 * w2
        # (A) the discretised update equation  psi' + z |psi'|^2 = w
        H.prove_eq(f"psi' + z X = w {t}", Pi + zq * Xi, wq, slice=True)
        # (B) reported |psi'|^2 is the squared modulus of the reported psi', hence real and >= 0
        H.prove_eq(f"X = |psi'|^2 {t}", Xi, H.abs2(Pi), slice=True, timeout=120)
        H.prove(f"X >= 0 {t}", Xi >= 0, slice=True)
        # (C) X solves the documented quadratic and is the root of quad-root (finite as |z| -> 0)
        H.prove_eq(f"quad-2: |z|^2 X^2 - (2c+1) X + |w|^2 = 0 {t}", z2 * Xi * Xi - b * Xi + w2, 0.0, slice=True)
        H.prove(f"answered => discriminant >= 0 {t}", disc >= 0, slice=True)
        H.prove(f"answered => denominator (2c+1)+sqrt(disc) > 0 {t}", b > 0, slice=True)
        sq = H.sqrt(disc) if H.mode == "sym" else np.sqrt(disc)
        H.prove_eq(f"quad-root: X ((2c+1)+sqrt(disc)) = 2|w|^2 {t}", Xi * (b + sq), 2 * w2, slice=True)
        H.prove_eq(f"physical branch: 2|z|^2 X = (2c+1) - sqrt(disc) {t}", 2 * z2 * Xi, b - sq, slice=True)
        H.subst = None


def body_exists(H, case):
    """Never refused when a solution exists: for every psi', z the right-hand side
    w := psi' + z|psi'|^2 has a non-negative discriminant, and psi' is recovered when it is
    the physical-branch solution."""
    p = H.cplx("p")
    z = H.cplx("z")
    x = H.abs2(p)
    w = p + z * x
    c = K.re(w) * K.re(z) + K.im(w) * K.im(z)
    b = 2 * c + 1
    disc = b * b - 4 * H.abs2(z) * H.abs2(w)
    H.prove("a solution exists => discriminant >= 0 (so the update is not refused)", disc >= 0, timeout=120)
