"""In-memory stand-ins for h5py / tempfile / os used by the I/O-facing harnesses (C05, C11,
C14, C15, C19).  A file is a tree of groups (dict + attrs) and datasets (wrapped values); the
fake file system tracks which paths exist, which handles are open, and every mutation."""
import os as _os
import posixpath

import numpy as _np

from .arr import SA
from .core import Sc


class FakeFS:
    def __init__(self):
        self.files = {}  # path -> FakeFile (the stored tree survives close)
        self.dirs = set()
        self.open_handles = []
        self.log = []  # (op, path)
        self.tmp_counter = 0
        self.cwd = "/work"
        self.fault = None  # callable(op, path) -> None | raises

    def exists(self, path):
        return path in self.files or path in self.dirs

    def creations(self):
        return [e for e in self.log if e[0] in ("create", "mkdir", "mkdtemp")]


class Attrs(dict):
    """HDF5 attributes: numbers, strings, booleans and arrays only (h5py raises TypeError for
    anything else, e.g. callables, dicts, None)"""

    def __setitem__(self, k, v):
        ok = isinstance(v, (int, float, complex, str, bytes, bool, _np.number, _np.bool_, _np.ndarray, Sc, SA, list, tuple))
        if not ok or v is None:
            raise TypeError(f"Object dtype {type(v).__name__!r} has no native HDF5 equivalent")
        dict.__setitem__(self, k, v)

    def update(self, other=(), **kw):
        for k, v in dict(other, **kw).items():
            self[k] = v


class Dataset:
    def __init__(self, value, fs=None, path=None):
        self.value = _copy(value)
        self.attrs = Attrs()
        self._fs, self._path = fs, path

    @property
    def shape(self):
        return _np.shape(self.value.data if isinstance(self.value, SA) else self.value)

    def __getitem__(self, k):
        if k == () or k is Ellipsis:
            return self.value
        return self.value[k]

    def __setitem__(self, k, v):
        if isinstance(self.value, SA) or isinstance(v, (SA, Sc)):
            if not isinstance(self.value, SA):
                self.value = SA(_np.asarray(self.value, dtype=object))
            self.value[k] = v
        else:
            self.value = _np.array(self.value)
            self.value[k] = v

    def __array__(self, dtype=None, copy=None):
        if isinstance(self.value, SA):
            return self.value.__array__(dtype)
        return _np.asarray(self.value, dtype=dtype)

    def __len__(self):
        return len(self.value)

    def flush(self):
        pass

    def refresh(self):
        pass

    def sym_value(self):
        return self.value


def _copy(v):
    if isinstance(v, SA):
        return v.copy()
    if isinstance(v, _np.ndarray):
        return v.copy()
    if isinstance(v, (list, tuple)):
        return _np.array(v)
    return v


class Node:
    """stored group: children (Node | Dataset) and attributes; shared by all handles of a file"""

    def __init__(self):
        self.children = {}
        self.attrs = Attrs()


class Group:
    """a view of a stored group through one open handle (invalid once that handle is closed)"""

    def __init__(self, file, name, node):
        self.file = file
        self.name = name
        self.node = node

    @property
    def children(self):
        return self.node.children

    @property
    def attrs(self):
        self._check()
        return self.node.attrs

    def _check(self, write=False):
        if not self.file.is_open:
            raise ValueError("Invalid location identifier (file is closed)")
        if write and self.file.mode == "r":
            raise OSError("file is read-only")
        if write and self.file.fs.fault is not None:
            self.file.fs.fault("write", self.file.path)
        if write:
            self.file.fs.log.append(("write", self.file.path))

    def _wrap(self, name, obj):
        if isinstance(obj, Node):
            return Group(self.file, posixpath.join(self.name, name), obj)
        return obj

    def _walk(self, path, create=False):
        parts = [p for p in str(path).split("/") if p]
        n = self.node
        for p in parts[:-1]:
            if p not in n.children:
                if not create:
                    raise KeyError(f"Unable to open object (component not found: {p})")
                n.children[p] = Node()
            n = n.children[p]
            if not isinstance(n, Node):
                raise KeyError(p)
        return n, (parts[-1] if parts else "")

    def create_group(self, name, track_order=None):
        self._check(write=True)
        n, last = self._walk(name, create=True)
        if last in n.children:
            raise ValueError(f"Unable to create group (name already exists): {name}")
        n.children[last] = Node()
        return Group(self.file, posixpath.join(self.name, str(name)), n.children[last])

    def require_group(self, name):
        n, last = self._walk(name, create=True)
        if last not in n.children:
            return self.create_group(name)
        return self._wrap(last, n.children[last])

    def create_dataset(self, name, data=None, **kw):
        self[name] = data
        return self[name]

    def __setitem__(self, name, value):
        self._check(write=True)
        n, last = self._walk(str(name), create=True)
        if last in n.children:
            raise OSError(f"Unable to create link (name already exists): {name}")
        if isinstance(value, (Group, Dataset)):
            raise NotImplementedError("hard links")
        n.children[last] = Dataset(value, self.file.fs, posixpath.join(self.name, last))

    def __getitem__(self, name):
        self._check()
        n, last = self._walk(str(name))
        if last == "":
            return self
        if last not in n.children:
            raise KeyError(f"Unable to open object (object '{last}' doesn't exist)")
        return self._wrap(str(name), n.children[last])

    def __delitem__(self, name):
        self._check(write=True)
        n, last = self._walk(str(name))
        del n.children[last]

    def __contains__(self, name):
        try:
            n, last = self._walk(str(name))
        except KeyError:
            return False
        return last in n.children

    def __iter__(self):
        self._check()
        return iter(list(self.node.children))

    def keys(self):
        return list(self.node.children)

    def items(self):
        return [(k, self._wrap(k, v)) for k, v in self.node.children.items()]

    def values(self):
        return [self._wrap(k, v) for k, v in self.node.children.items()]

    def __len__(self):
        return len(self.node.children)

    def get(self, name, default=None):
        return self[name] if name in self else default


class FakeFile(Group):
    """one open handle on a stored file tree"""

    def __init__(self, fs, path, mode, root, **kw):
        self.fs = fs
        self.path = path
        self.mode = mode
        self.is_open = True
        self.kw = kw
        self.swmr_mode = False
        Group.__init__(self, self, "/", root)

    @property
    def filename(self):
        return self.path

    def close(self):
        if self.is_open:
            self.is_open = False
            if self in self.fs.open_handles:
                self.fs.open_handles.remove(self)
            self.fs.log.append(("close", self.path))

    def flush(self):
        if not self.is_open:
            raise ValueError("flush of closed file")

    def __enter__(self):
        return self

    def __exit__(self, *a):
        self.close()
        return False

    def __bool__(self):
        return self.is_open


def tree_repr(node):
    """structural fingerprint of a stored tree (names, attribute keys, dataset shapes)"""
    if isinstance(node, Dataset):
        return ("D", node.shape)
    return ("G", sorted(node.attrs), sorted((k, tree_repr(v)) for k, v in node.children.items()))


class FakeH5py:
    """Stands for the `h5py` module in patched modules."""

    Group = Group
    Dataset = Dataset

    def __init__(self, fs):
        self.fs = fs

        outer = self

        class _Meta(type):
            def __instancecheck__(cls, x):
                return isinstance(x, FakeFile)

        class _File(FakeFile, metaclass=_Meta):
            def __new__(cls, path, mode="r", **kw):
                return outer.open(str(path), mode, **kw)

        self.File = _File

    def open(self, path, mode="r", **kw):
        fs = self.fs
        if fs.fault is not None:
            fs.fault("open", path)
        if mode in ("x", "w-"):
            if path in fs.files:
                raise FileExistsError(f"Unable to create file (file exists): {path}")
            d = posixpath.dirname(path)
            if d and d not in fs.dirs:
                raise FileNotFoundError(f"Unable to create file (no such directory): {d}")
            fs.files[path] = Node()
            fs.log.append(("create", path))
        elif mode == "w":
            fs.files[path] = Node()
            fs.log.append(("create", path))
        elif mode in ("r", "r+", "a"):
            if path not in fs.files:
                if mode == "a":
                    fs.files[path] = Node()
                    fs.log.append(("create", path))
                else:
                    raise FileNotFoundError(f"Unable to open file: {path}")
            fs.log.append(("open-" + mode, path))
        else:
            raise ValueError(mode)
        f = FakeFile(fs, path, mode, fs.files[path], **kw)
        fs.open_handles.append(f)
        return f


class FakeTempDir:
    def __init__(self, fs):
        fs.tmp_counter += 1
        self.fs = fs
        self.name = f"/tmp/fake{fs.tmp_counter}"
        fs.dirs.add(self.name)
        fs.log.append(("mkdtemp", self.name))

    def cleanup(self):
        for p in [p for p in self.fs.files if p.startswith(self.name + "/")]:
            del self.fs.files[p]
            self.fs.log.append(("remove", p))
        self.fs.dirs.discard(self.name)
        self.fs.log.append(("rmtree", self.name))

    def __enter__(self):
        return self.name

    def __exit__(self, *a):
        self.cleanup()


class FakeTempfile:
    def __init__(self, fs):
        self.fs = fs

    def TemporaryDirectory(self, *a, **k):
        return FakeTempDir(self.fs)


class _FakePathMod:
    def __init__(self, fs):
        self.fs = fs

    def join(self, *a):
        return posixpath.join(*a)

    def exists(self, p):
        return self.fs.exists(str(p))

    def dirname(self, p):
        return posixpath.dirname(p)

    def basename(self, p):
        return posixpath.basename(p)

    def abspath(self, p):
        return p if p.startswith("/") else posixpath.join(self.fs.cwd, p)

    def isfile(self, p):
        return str(p) in self.fs.files


class FakeOs:
    def __init__(self, fs):
        self.fs = fs
        self.path = _FakePathMod(fs)
        self.environ = {}
        self.sep = "/"

    def getcwd(self):
        return self.fs.cwd

    def remove(self, p):
        if self.fs.fault is not None:
            self.fs.fault("remove", p)
        if p not in self.fs.files:
            raise FileNotFoundError(p)
        if any(h.path == p and h.is_open for h in self.fs.open_handles):
            # POSIX allows it; recorded so that harnesses can assert handles were closed first
            self.fs.log.append(("remove-open", p))
        del self.fs.files[p]
        self.fs.log.append(("remove", p))

    def makedirs(self, p, exist_ok=False):
        self.fs.dirs.add(p)
        self.fs.log.append(("mkdir", p))


def clone_tree(node):
    """deep copy of a stored file tree (datasets and attributes are copied, symbolic terms are shared)"""
    if isinstance(node, Dataset):
        d = Dataset(node.value, node._fs, node._path)
        dict.update(d.attrs, {k: _copy(v) for k, v in node.attrs.items()})
        return d
    n = Node()
    dict.update(n.attrs, {k: _copy(v) for k, v in node.attrs.items()})
    for k, c in node.children.items():
        n.children[k] = clone_tree(c)
    return n


class FakeShutil:
    def __init__(self, fs):
        self.fs = fs

    def copy(self, src, dst):
        src, dst = str(src), str(dst)
        if self.fs.fault is not None:
            self.fs.fault("copy", dst)
        if src not in self.fs.files:
            raise FileNotFoundError(src)
        if dst in self.fs.dirs:
            dst = posixpath.join(dst, posixpath.basename(src))
        d = posixpath.dirname(dst)
        if d and d not in self.fs.dirs:
            raise FileNotFoundError(d)
        self.fs.files[dst] = clone_tree(self.fs.files[src])
        self.fs.log.append(("create", dst))
        return dst

    copy2 = copyfile = copy


class FakePath:
    """pathlib.Path stand-in: only what DataHandler uses (parent.mkdir)."""

    fs = None

    def __init__(self, p):
        self.p = str(p)

    @property
    def parent(self):
        d = posixpath.dirname(self.p)
        q = FakePath(d if d else FakePath.fs.cwd)
        return q

    def mkdir(self, parents=False, exist_ok=False):
        p = self.p if self.p.startswith("/") else posixpath.join(FakePath.fs.cwd, self.p)
        if p not in FakePath.fs.dirs:
            FakePath.fs.dirs.add(p)
            FakePath.fs.log.append(("mkdir", p))

    def __str__(self):
        return self.p


def make_path_class(fs):
    cls = type("FakePathBound", (FakePath,), {})
    FakePath.fs = fs
    cls.fs = fs
    return cls


class FakeTqdm:
    def __init__(self, *a, **k):
        pass

    def __enter__(self):
        return self

    def __exit__(self, *a):
        return False

    def update(self, n=1):
        pass


class FakeDatetime:
    """datetime stand-in: now() returns objects whose isoformat is an opaque string and whose
    differences are opaque (nondeterministic wall clock)."""

    n = 0

    @classmethod
    def now(cls):
        cls.n += 1
        return _Stamp(cls.n)

    @classmethod
    def fromisoformat(cls, s):
        return _Stamp(int(str(s).split("#")[1].rstrip(">")) if "#" in str(s) else 0)


class _Stamp:
    def __init__(self, n):
        self.n = n

    def isoformat(self):
        return f"<wallclock#{self.n}>"

    def __eq__(self, o):
        return isinstance(o, _Stamp) and o.n == self.n

    def __hash__(self):
        return hash(self.n)

    def __sub__(self, o):
        return _Delta()

    def __str__(self):
        return f"<wallclock#{self.n}>"

    __format__ = lambda self, spec: str(self)


class _Delta:
    def total_seconds(self):
        return 0.0

    def __str__(self):
        return "<elapsed>"
