"""C09 - Simulations are deterministic and reproducible bit for bit (as non-interference).

Determinism is a 2-safety property: every source of nondeterminism becomes an explicit input
and the recorded outputs must not depend on it.
 (A) race freedom of every `prange` kernel (Coulomb kernel, Biot-Savart kernels, distance
     kernels): the Python source is executed with instrumented arrays that record the read and
     write set of each outer iteration; write sets are pairwise disjoint, no iteration reads what
     another writes, and the term computed for each output element is identical when the outer
     iterations run in a different order (terms are kept unsimplified, so identical terms mean
     identical floating-point evaluation order).
 (B) uninitialised memory: the `np.empty` buffer of the induced potential is modelled by fresh
     symbols; no output of `TDGLSolver.update` may contain one.
 (C) random validation times: acceptance of terminal currents that are balanced (unbalanced) at
     all times does not depend on the draws; constant currents use no random numbers.
 (D) hash-order nondeterminism: the solver module is re-compiled from /repo's current source
     with every set display / comprehension / `set()` call wrapped so that iterating over a set
     forks over two orders; the terminal current densities must be structurally identical on all
     forks (so no float summation order depends on string hashing)."""
import ast
import subprocess
import sys
import types

import numpy as np
import z3

from symx import core, engine, meshes
from symx.core import CTX, Sc
from symx.engine import Case

from . import common as K
from . import solver_setup as S

ID = "C09"
ENCODED = [
    "tdgl.solver.screening:get_A_induced_numba",
    "tdgl.em:_biot_savart_2d_z",
    "tdgl.em:_biot_savart_2d_vector",
    "tdgl.distance:euclidean_distance_2d",
    "tdgl.distance:sqeuclidean_distance_3d",
    "tdgl.solver.solver:TDGLSolver.__init__",
    "tdgl.solver.solver:TDGLSolver.update",
    "tdgl.solver.solver:TDGLSolver.update_mu_boundary",
    "tdgl.solver.solver:validate_terminal_currents",
]
BOUNDS = {
    "quick": dict(kernel_sizes="3 outer x 3 inner iterations", schedules="all, by the race-freedom argument (not by enumerating orders)", terminals=4),
    "thorough": dict(kernel_sizes="4 outer x 4 inner iterations", schedules="all, by the race-freedom argument", terminals=4),
}
ASSUMPTIONS = [
    "numba kernels through their Python source; a data-race-free prange loop whose iterations only write their own output elements gives the same result under every schedule",
    "identical unsimplified term DAGs evaluate identically under any deterministic floating-point semantics",
    "sets are the only hash-ordered containers (dicts keep insertion order)",
]
OUTSIDE = [
    "compiled numba code (fastmath re-association is fixed at compile time)", "BLAS / SuperLU threading", "Triangle meshing", "process boundaries and thread counts of the binaries",
]
SIMPLIFY = False
TV_SAMPLES = {"quick": 1, "thorough": 1}


class _SymbolicClock:
    """time.perf_counter in symbolic runs: every reading is a fresh unknown, later than the previous one"""

    def __init__(self):
        self.last = None
        self.n = 0

    def __call__(self):
        self.n += 1
        t = Sc(z3.Real(f"wallclock!{self.n}"))
        if self.last is not None:
            CTX.add_path_assume((t > self.last + 1e-6).e)
        else:
            CTX.add_path_assume((t > 0).e)
        self.last = t
        return t


def patch_spec(case):
    if case.kind == "clock":
        from types import SimpleNamespace

        from . import C11

        spec = C11.patch_spec(case)
        spec["tdgl.solver.runner"]["time"] = SimpleNamespace(perf_counter=_SymbolicClock())
        return spec
    return S.patch_spec(extra_modules=["tdgl.em", "tdgl.distance"])


def cases(tier, seed):
    n = 3 if tier == "quick" else 4
    meshes.get_device("bar0", seed)
    meshes.get_device("cross4", seed)
    return [
        Case("races:coulomb-kernel", kind="race", kernel="coulomb", n=n, seed=seed),
        Case("races:biot-savart-z", kind="race", kernel="bs_z", n=n, seed=seed),
        Case("races:biot-savart-vector", kind="race", kernel="bs_v", n=n, seed=seed),
        Case("races:distance", kind="race", kernel="dist", n=n, seed=seed),
        Case("uninitialised-buffer:update", kind="uninit", seed=seed),
        Case("random-validation-times", kind="rng", seed=seed),
        Case("hash-order:terminal-currents", kind="hash", seed=seed),
        Case("wall-clock:progress-reporting", kind="clock", seed=seed),
    ]


def body(H, case):
    return globals()["body_" + case.kind](H, case)


# ---- (A) ---------------------------------------------------------------------------------------------
class Track:
    """array wrapper that records which outer iteration reads / writes which element of which array
    (`idx` holds, for every element of this view, the flat index into the base array)"""

    def __init__(self, data, name, log, idx=None):
        self.data, self.name, self.log = data, name, log
        self.idx = np.arange(int(np.prod(np.shape(data)))).reshape(np.shape(data)) if idx is None else idx

    shape = property(lambda s: s.data.shape)
    ndim = property(lambda s: s.data.ndim)
    dtype = property(lambda s: getattr(s.data, "dtype", np.dtype(float)))
    size = property(lambda s: s.idx.size)

    def __len__(self):
        return len(self.data)

    def _note(self, op, idx):
        self.log.append((op, self.name, frozenset(int(i) for i in np.asarray(idx).ravel()), self.log.cur))

    def _val(self):
        self._note("r", self.idx)
        return self.data

    def __getitem__(self, k):
        sub = self.idx[k]
        if isinstance(sub, np.ndarray):
            return Track(self.data[k], self.name, self.log, sub)  # a view: accesses are recorded when it is used
        self._note("r", sub)
        return self.data[k]

    def __setitem__(self, k, v):
        self._note("w", self.idx[k])
        self.data[k] = v._val() if isinstance(v, Track) else v

    def __array__(self, dtype=None, copy=None):
        return np.asarray(self._val(), dtype=dtype)

    def _ip(self, o, f):
        self._note("r", self.idx)
        self._note("w", self.idx)
        self.data = f(self.data, o._val() if isinstance(o, Track) else o)
        return self

    def __iadd__(s, o):
        return s._ip(o, lambda a, b: a.__iadd__(b))

    def __isub__(s, o):
        return s._ip(o, lambda a, b: a.__isub__(b))

    def __imul__(s, o):
        return s._ip(o, lambda a, b: a.__imul__(b))

    def __itruediv__(s, o):
        return s._ip(o, lambda a, b: a.__itruediv__(b))


def _u(x):
    return x._val() if isinstance(x, Track) else x


for _nm, _f in dict(add=lambda a, b: a + b, sub=lambda a, b: a - b, mul=lambda a, b: a * b, truediv=lambda a, b: a / b, pow=lambda a, b: a ** b).items():
    setattr(Track, f"__{_nm}__", (lambda f: lambda s, o: f(s._val(), _u(o)))(_f))
    setattr(Track, f"__r{_nm}__", (lambda f: lambda s, o: f(_u(o), s._val()))(_f))
Track.__neg__ = lambda s: -s._val()


class Log(list):
    cur = None


class TrackingNumpy:
    """the kernel's `np`: arrays it allocates are tracked too (one allocated before the parallel loop is
    shared between the iterations, one allocated inside an iteration is private to it); every other
    function sees the plain arrays (the reads are recorded)"""

    ALLOC = ("empty", "zeros", "ones", "empty_like", "zeros_like", "ones_like", "full")

    def __init__(self, real_np, log, made, sym):
        self._np, self._log, self._made, self._sym = real_np, log, made, sym

    def __getattr__(self, k):
        f = getattr(self._np, k)
        if k in self.ALLOC:
            def alloc(*a, **kw):
                a = [_u(x) for x in a]
                if self._sym or k not in ("empty", "empty_like"):
                    o = f(*a, **kw)
                else:  # concrete runs: make a use of uninitialised memory visible
                    o = np.full(np.shape(a[0]) if k == "empty_like" else a[0], np.nan)
                cur = self._log.cur
                name = f"out:local{len(self._made)}" + ("" if cur is None else f"@iteration{cur}")
                self._made.append((name, o))
                return Track(o, name, self._log)
            return alloc
        if callable(f) and not isinstance(f, type):
            return lambda *a, **kw: f(*[_u(x) for x in a], **{kk: _u(v) for kk, v in kw.items()})
        return f


def body_race(H, case):
    import tdgl.distance as D
    import tdgl.em as em
    import tdgl.solver.screening as scr
    from symx import arr

    n = case.n
    rng_order = list(range(n))

    def run(order):
        log = Log()

        def prange(k):
            assert k == n, k
            for i in order:
                log.cur = i
                yield i
            log.cur = None

        fake_numba = types.SimpleNamespace(prange=prange)
        sym = H.mode == "sym"
        mk2 = lambda nm, a, b, lo, hi: H.reals2(nm, a, b, lo=lo, hi=hi)
        outs = {}

        def call(f, *args):
            g = dict(f.__globals__)
            g["numba"] = fake_numba
            made = []
            g["np"] = TrackingNumpy(g["np"], log, made, sym)
            res = types.FunctionType(f.__code__, g, f.__name__)(*args)
            return res, made

        if case.kernel == "coulomb":
            f = getattr(scr.get_A_induced_numba, "py_func", scr.get_A_induced_numba)
            J, ar = mk2("J", n, 2, -2.0, 2.0), H.reals("a", n, lo=0.1, hi=2.0)
            sites = H.array2([[H.real(f"sx{j}", lo=j - 0.2, hi=j + 0.2), H.real(f"sy{j}", lo=-0.2, hi=0.2)] for j in range(n)])
            cent = H.array2([[H.real(f"cx{i}", lo=i + 0.3, hi=i + 0.7), H.real(f"cy{i}", lo=0.8, hi=1.2)] for i in range(n)])
            out = arr.empty((n, 2), dtype=float) if sym else np.full((n, 2), np.nan)
            tout = Track(out, "out", log)
            _, made = call(f, Track(J, "J", log), Track(ar, "areas", log), Track(sites, "sites", log), Track(cent, "centers", log), tout)
            outs["out"] = tout.data
        elif case.kernel in ("bs_z", "bs_v"):
            f = (em._biot_savart_2d_z if case.kernel == "bs_z" else em._biot_savart_2d_vector); f = getattr(f, "py_func", f)
            ev = H.array2([[H.real(f"ex{i}", lo=-1.0, hi=1.0), H.real(f"ey{i}", lo=-1.0, hi=1.0), H.real(f"ez{i}", lo=0.5, hi=1.5)] for i in range(n)])
            pos = H.array2([[H.real(f"px{k}", lo=-1.0, hi=1.0), H.real(f"py{k}", lo=-1.0, hi=1.0), 0.0] for k in range(n)])
            J, ar = mk2("J", n, 2, -2.0, 2.0), H.reals("a", n, lo=0.1, hi=2.0)
            res, made = call(f, Track(ev, "eval", log), Track(pos, "pos", log), Track(J, "J", log), Track(ar, "areas", log))
            outs["out"] = _u(res) if isinstance(res, Track) else res
        else:
            for nm in ("euclidean_distance_2d", "sqeuclidean_distance_3d"):
                f = getattr(D, nm); f = getattr(f, "py_func", f)
                dim = 2 if nm.endswith("2d") else 3
                XA, XB = mk2(f"A{dim}", n, dim, -2.0, 2.0), mk2(f"B{dim}", n, dim, -2.0, 2.0)
                res, made = call(f, Track(XA, "XA", log), Track(XB, "XB", log))
                outs[nm] = res.data if isinstance(res, Track) else res
        return log, outs

    log, outs = run(rng_order)
    writes, reads = {}, {}
    for (op, nm, idx, it) in log:
        if nm.startswith("out") and "@iteration" not in nm:  # shared between the iterations
            (writes if op == "w" else reads).setdefault(it, set()).update((nm, i) for i in idx)
    its = sorted(i for i in writes if i is not None)
    H.prove("every outer iteration writes output", its == list(range(case.n)))
    for i in its:
        for j in its:
            if i < j:
                H.prove(f"iterations {i} and {j} write disjoint output elements", not (writes[i] & writes[j]))
            if i != j:
                H.prove(f"iteration {i} never reads what iteration {j} writes", not (reads.get(i, set()) & writes[j]))
    H.prove("no write to shared inputs", not any(op == "w" and not nm.startswith("out") for (op, nm, k, it) in log))
    # schedule independence of the computed terms (unsimplified => same float evaluation order)
    log2, outs2 = run(list(reversed(rng_order)))
    for nm in outs:
        a, b = outs[nm], outs2[nm]
        if H.mode == "sym":
            same = all(str(Sc.of(x).re) == str(Sc.of(y).re) for x, y in zip(a.data.ravel(), b.data.ravel()))
            left = [v for v in a.data.ravel() if "uninit!" in str(Sc.of(v).re)]
            H.prove(f"{nm}: no uninitialised value survives", not left)
        else:
            same = bool(np.array_equal(a, b)) and not np.isnan(a).any()
        H.prove(f"{nm}: each output element is computed identically under a reversed schedule", same)


# ---- (E) the wall clock ---------------------------------------------------------------------------
def body_clock(H, case):
    """progress reporting reads the wall clock: nothing it reads may reach the update function or a recorded
    frame (real Runner with progress_interval > 0; symbolic runs: every clock reading is a fresh unknown and
    no argument / frame may mention one; concrete runs: two runs under the real clock agree exactly)"""
    from . import C11

    fs = case.params.get("_fs")
    if H.mode == "sym":
        fs.files.clear(); fs.dirs.clear(); fs.dirs.add("/work"); fs.open_handles.clear(); fs.log.clear(); fs.tmp_counter = 0
    N = 3
    dts = [H.real(f"dt{i}", lo=0.5, hi=1.0) for i in range(N + 3)]
    v0 = H.real("v0", lo=-1.0, hi=1.0)
    T = H.real("T", lo=1.6, hi=1.9)
    cfg = dict(k=2, probes=0, prog=1, explicit=False)
    c1, f1 = C11.run_runner(H, case, cfg, N, T, dts, v0, "a", fs)
    c2, f2 = C11.run_runner(H, case, cfg, N, T, dts, v0, "b", fs)
    H.prove("the run makes updates and records frames", len(c1) >= 2 and len(f1) >= 2)

    def mentions_clock(x):
        return H.mode == "sym" and "wallclock!" in (str(Sc.of(x).re) if not isinstance(x, (int, float)) else "")

    def same(a, b):
        if H.mode == "sym":
            return str(Sc.of(a).re) == str(Sc.of(b).re) if not (isinstance(a, (int, float)) and isinstance(b, (int, float))) else a == b
        return bool(a == b)

    for i, (a, b) in enumerate(zip(c1, c2)):
        for nm, x, y in zip(("step", "time", "dt", "state"), a, b):
            H.prove(f"update {i}: the {nm} argument does not depend on the wall clock", (not mentions_clock(x)) and same(x, y))
    H.prove("both runs make the same number of updates and record the same steps", len(c1) == len(c2) and sorted(f1) == sorted(f2))
    for s_ in sorted(set(f1) & set(f2)):
        (t1, v1), (t2, v2) = f1[s_], f2[s_]
        H.prove(f"frame of step {s_}: time and state do not depend on the wall clock", not mentions_clock(t1) and not mentions_clock(v1) and same(t1, t2) and same(v1, v2))


# ---- (B) ---------------------------------------------------------------------------------------------
def body_uninit(H, case):
    dev = S.symbolic_device(H, "bar0", case.seed, symbolic_mesh=False)
    ns, ne = len(dev.mesh.sites), len(dev.mesh.edge_mesh.edges)
    opts = S.make_options(dt_init=0.01, dt_max=0.01, adaptive=False, include_screening=True, max_iterations_per_step=1, screening_tolerance=10.0)
    solver = S.make_solver(H, dev, opts, validate=False)
    js = H.reals("js", ne, lo=-1.0, hi=1.0)
    mu1 = H.reals("mu", ns, lo=-1.0, hi=1.0)
    solver.adaptive_euler_step = lambda step, psi, abs_sq_psi, mu, epsilon, dt: (psi, abs_sq_psi, dt)
    solver.solve_for_observables = lambda p, dA_dt: (mu1, js, js * 0.5)
    rs = S.running_state(H, solver)
    psi = H.array([1.0] * ns) if H.mode == "sym" else np.ones(ns, dtype=complex)
    zed = H.array([0.0] * ne) if H.mode == "sym" else np.zeros(ne)
    if H.mode == "conc":
        solver.new_A_induced[...] = np.nan  # "uninitialised"
    try:
        res = solver.update({"step": 1, "time": 0.0, "dt": 0.01}, rs, 0.01, psi=psi, mu=mu1, supercurrent=zed, normal_current=zed,
                            induced_vector_potential=S.zeros2(H, ne, 2))
    except RuntimeError:
        return
    if H.mode == "sym":
        def has_uninit(x):
            return any("uninit!" in str(Sc.of(v).re) for v in K.elems(x.ravel() if hasattr(x, "ravel") else x))

        for nm in ("psi", "mu", "supercurrent", "normal_current", "A_induced"):
            H.prove(f"update output {nm} does not depend on uninitialised memory", not has_uninit(getattr(res, nm)))
        H.prove("the kernel buffer is fully overwritten", not has_uninit(solver.new_A_induced))
    else:
        for nm in ("psi", "mu", "supercurrent", "normal_current", "A_induced"):
            H.prove(f"update output {nm} does not depend on uninitialised memory", not np.isnan(np.asarray(getattr(res, nm))).any())
        H.prove("the kernel buffer is fully overwritten", not np.isnan(solver.new_A_induced).any())


# ---- (C) ---------------------------------------------------------------------------------------------
def body_rng(H, case):
    from types import SimpleNamespace

    import tdgl.solver.solver as sol

    info = [SimpleNamespace(name=nm) for nm in ("a", "b")]
    amp = [H.real(f"amp{i}", lo=0.1, hi=5.0) for i in range(4)]

    def f(t):  # arbitrary positive time dependence (piecewise, symbolic levels)
        return amp[0] if H.is_true(t < 0.5) else amp[1]

    used = dict(n=0)
    if H.mode == "sym":
        class _Rng:
            def random(self, n):
                used["n"] += 1
                return H.array([H.real(f"draw{i}", lo=0.0, hi=1.0, hi_open=True) for i in range(n)])

        sol.np._extra["random"] = SimpleNamespace(default_rng=lambda: _Rng())
    try:
        for label, cur, expect in (
            ("balanced at all times", lambda t: {"a": f(t), "b": -f(t)}, False),
            ("unbalanced at all times", lambda t: {"a": f(t), "b": -0.5 * f(t)}, True),
        ):
            try:
                sol.validate_terminal_currents(cur, info, SimpleNamespace(solve_time=1.0), num_evals=3 if H.mode == "sym" else 100)
                rejected = False
            except ValueError:
                rejected = True
            H.prove(f"currents {label}: the verdict does not depend on the random times", rejected == expect)
        n0 = used["n"]
        sol.validate_terminal_currents({"a": amp[2], "b": -amp[2]}, info, SimpleNamespace(solve_time=1.0))
        H.prove("constant currents are validated without random numbers", used["n"] == n0)
    finally:
        if H.mode == "sym":
            sol.np._extra.pop("random", None)


# ---- (D) ---------------------------------------------------------------------------------------------
class _SetWrap(ast.NodeTransformer):
    def visit_Set(self, node):
        self.generic_visit(node)
        return ast.copy_location(ast.Call(func=ast.Name(id="__nondet_set__", ctx=ast.Load()), args=[node], keywords=[]), node)

    def visit_SetComp(self, node):
        self.generic_visit(node)
        return ast.copy_location(ast.Call(func=ast.Name(id="__nondet_set__", ctx=ast.Load()), args=[node], keywords=[]), node)

    def visit_Call(self, node):
        self.generic_visit(node)
        if isinstance(node.func, ast.Name) and node.func.id in ("set", "frozenset"):
            return ast.copy_location(ast.Call(func=ast.Name(id="__nondet_set__", ctx=ast.Load()), args=[node], keywords=[]), node)
        return node


_FORKS = dict(H=None, n=0)


class NondetSet(set):
    """a set whose iteration order is one of two orders (forked): models hash-order nondeterminism"""

    def __iter__(self):
        items = sorted(set.__iter__(self), key=repr)
        if len(items) < 2 or _FORKS["H"] is None:
            return iter(items)
        _FORKS["n"] += 1
        if _FORKS["H"].choice(f"set-order#{_FORKS['n']}", [0, 1]):
            items = list(reversed(items))
        return iter(items)


def recompiled_solver_module():
    """tdgl.solver.solver re-compiled from the current source with nondeterministic sets"""
    import tdgl.solver.solver as real

    src = open(real.__file__).read()
    tree = ast.fix_missing_locations(_SetWrap().visit(ast.parse(src)))
    mod = types.ModuleType("tdgl.solver.solver_nondet")
    mod.__dict__.update({k: v for k, v in real.__dict__.items() if k.startswith("__") and k not in ("__dict__",)})
    mod.__package__ = "tdgl.solver"
    mod.__file__ = real.__file__
    mod.__dict__["__nondet_set__"] = NondetSet
    exec(compile(tree, real.__file__, "exec"), mod.__dict__)
    # same facades as the real module has at this moment
    for k in ("np", "sp", "float", "logger", "get_A_induced_numba", "validate_terminal_currents"):
        if k in real.__dict__ and k != "validate_terminal_currents":
            mod.__dict__[k] = real.__dict__[k]
    return mod


_HASH_REF = {}


def body_hash(H, case):
    if H.mode != "sym":
        return body_hash_concrete(H, case)
    mod = recompiled_solver_module()
    _FORKS["H"], _FORKS["n"] = H, 0
    try:
        dev = S.symbolic_device(H, "cross4", case.seed, symbolic_mesh=False)
        names = [t.name for t in dev.terminals]
        cur = [H.real(f"I_{nm}", lo=0.5, hi=10.0) for nm in names[:-1]]
        cur.append(-K.total(cur))
        opts = S.make_options()
        opts.validate = lambda: None
        solver = mod.TDGLSolver(dev, opts, terminal_currents=dict(zip(names, cur)))
        solver.update_mu_boundary(0.0)
        sig = "|".join(str(Sc.of(v).re) for v in K.elems(solver.mu_boundary))
    finally:
        _FORKS["H"] = None
    key = case.name
    if H.path_id == 0 or key not in _HASH_REF:
        _HASH_REF[key] = sig
    H.prove("terminal current densities are computed identically whatever the iteration order of sets (no float sum depends on string hashing)", sig == _HASH_REF[key])


_SUB = r"""
import os, sys, struct
os.environ["MPLBACKEND"] = "Agg"; os.environ["TQDM_DISABLE"] = "1"
import logging; logging.disable(logging.CRITICAL)
sys.path.insert(0, "/verif")
import numpy as np
from symx import meshes
import tdgl
dev = meshes.get_device("cross4", 0)
names = [t.name for t in dev.terminals]
vals = [np.float64(0.1), np.float64(0.2), np.float64(0.3)]
vals.append(-(vals[0] + vals[1] + vals[2]))
from tdgl.solver.solver import TDGLSolver
s = TDGLSolver(dev, tdgl.SolverOptions(solve_time=1.0), terminal_currents=dict(zip(names, vals)))
s.update_mu_boundary(0.0)
print(",".join(struct.pack("<d", float(v)).hex() for v in s.mu_boundary))
"""


def body_hash_concrete(H, case):
    """replay on the real code: fresh processes that differ only in PYTHONHASHSEED"""
    outs = set()
    for seed in ("0", "1", "2", "3", "4", "5"):
        import os

        env = dict(os.environ, PYTHONHASHSEED=seed)
        p = subprocess.run([sys.executable, "-c", _SUB], capture_output=True, text=True, env=env, timeout=300)
        lines = [l for l in p.stdout.strip().splitlines() if l and "," in l]
        if p.returncode != 0 or not lines:
            raise engine.HarnessError("hash-order replay subprocess failed: " + p.stderr[-300:])
        outs.add(lines[-1])
    H.prove("terminal current densities are computed identically whatever the iteration order of sets (no float sum depends on string hashing)", len(outs) == 1)
