"""C03 - Finite-volume operators obey the discrete calculus identities.

The four real operator builders are executed on meshes of the family with symbolic cell
areas, edge lengths, dual edge lengths, link phases and fields; each identity is stated
row- or entry-wise and decided by z3 (QF_NRA)."""
import numpy as np

from symx import engine, meshes
from symx.engine import Case

from . import common as K

ID = "C03"
ENCODED = [
    "tdgl.finite_volume.operators:MeshOperators.build_operators",
    "tdgl.finite_volume.operators:build_divergence",
    "tdgl.finite_volume.operators:build_gradient",
    "tdgl.finite_volume.operators:build_laplacian",
    "tdgl.finite_volume.operators:build_neumann_boundary_laplacian",
    "tdgl.finite_volume.edge_mesh:EdgeMesh.from_mesh",
    "tdgl.finite_volume.util:generate_voronoi_vertices",
    "tdgl.finite_volume.util:get_dual_edge_lengths",
]
BOUNDS = {
    "quick": dict(meshes=["T2", "F5"], arithmetic="exact reals (QF_NRA)", max_vertex_degree=4),
    "thorough": dict(meshes=["T2", "F5", "F7", "G9", "R8", "device:bar2", "device:bar3"], arithmetic="exact reals (QF_NRA)", max_vertex_degree=6),
}
ASSUMPTIONS = [
    "mesh topology concrete (family of DESIGN 2.6); cell areas, edge lengths, dual edge lengths are arbitrary positive reals",
    "link phases theta_e = A.e_ij are arbitrary reals (unit-circle pairs cos^2+sin^2=1)",
    "scipy sparse construction modelled: duplicates summed, explicit assignment overwrites (symx.arr.SM)",
    "linear-function exactness: site coordinates symbolic on the T2 patch, lengths derived by the real EdgeMesh.from_mesh",
]
OUTSIDE = [
    "meshes with vertex degree > 6 or more than 9 sites",
    "IEEE rounding / summation order inside scipy's compiled sparse kernels",
]
TV_SAMPLES = {"quick": 2, "thorough": 2}

OPS = "tdgl.finite_volume.operators"


def patch_spec(case):
    return engine.std_patch(OPS, "tdgl.finite_volume.mesh", "tdgl.finite_volume.edge_mesh", "tdgl.finite_volume.util")


def cases(tier, seed):
    names = BOUNDS[tier]["meshes"]
    meshes.warm(names, seed)
    out = [Case(f"ops:{n}", mesh=n, kind="ops", seed=seed) for n in names]
    out.append(Case("linear:T2", mesh="T2", kind="linear", seed=seed))
    # the operators a solver object actually holds, for every sparse back end that can be set up without
    # its library being installed here (superlu; pardiso: the matrix is only re-formatted; umfpack and cupy
    # cannot be set up in this sandbox and stay outside)
    for backend in ("SUPERLU", "PARDISO"):
        out.append(Case(f"backend:{backend}:F5", mesh="F5", kind="backend", backend=backend, seed=seed))
    return out


def get_mesh(name, seed):
    return meshes.get(name, seed)


def body_backend(H, case):
    """`MeshOperators.build_operators` re-formats the scalar Laplacian for the chosen linear solver: the matrix
    the Poisson solve uses must still be the Laplacian (entry by entry) and the divergence of the gradient"""
    import tdgl.finite_volume.operators as ops
    from tdgl.solver.options import SparseSolver

    mesh = meshes.symbolise(get_mesh(case.mesh, case.seed), H)
    ns = len(mesh.sites)
    mo = ops.MeshOperators(mesh, getattr(SparseSolver, case.backend))
    mo.build_operators()
    L, _ = ops.build_laplacian(mesh)
    M = mo.mu_laplacian
    pat = sorted(set(K.pattern(L)) | set(K.pattern(M)))
    H.prove("the solver's scalar Laplacian has the pattern of the Laplacian", K.pattern(M) == K.pattern(L))
    for (i, j) in pat:
        H.prove_eq(f"solver's scalar Laplacian [{i},{j}] = Laplacian [{i},{j}]", K.entry(M, i, j), K.entry(L, i, j))
    f = H.reals("f", ns)
    H.prove_all_eq("solver's Laplacian = its divergence of its gradient", M @ f, mo.divergence @ (mo.mu_gradient @ f))


def body(H, case):
    if case.kind == "backend":
        return body_backend(H, case)
    if case.kind == "linear":
        return body_linear(H, case)
    import tdgl.finite_volume.operators as ops

    mesh = meshes.symbolise(get_mesh(case.mesh, case.seed), H)
    em = mesh.edge_mesh
    ns, ne, nb = len(mesh.sites), len(em.edges), len(em.boundary_edge_indices)
    areas = K.elems(mesh.areas)

    D = ops.build_divergence(mesh)
    G = ops.build_gradient(mesh)
    L, _ = ops.build_laplacian(mesh)
    B = ops.build_neumann_boundary_laplacian(mesh)

    f = H.reals("f", ns)
    v = H.reals("v", ne)
    q = H.reals("q", nb)

    # 1. Laplacian = divergence of gradient (row-wise)
    H.prove_all_eq("lap=div.grad", L @ f, D @ (G @ f))
    # 2. area-weighted divergence sums to zero
    Dv = K.elems(D @ v)
    H.prove_eq("sum a_i (D v)_i = 0", K.total(a * d for a, d in zip(areas, Dv)), 0.0)
    # 3. boundary-flux operator integrates to sum len_b q_b
    Bq = K.elems(B @ q)
    ref = K.total(K.at(em.edge_lengths, b) * K.at(q, k) for k, b in enumerate(em.boundary_edge_indices))
    H.prove_eq("sum a_i (B q)_i = sum len_b q_b", K.total(a * d for a, d in zip(areas, Bq)), ref)
    # 4. area-weighted scalar Laplacian symmetric (entry-wise over the union pattern)
    pat = K.pattern(L)
    for (i, j) in pat:
        if i < j:
            H.prove_eq(f"a_i L_ij = a_j L_ji [{i},{j}]", areas[i] * K.entry(L, i, j), areas[j] * K.entry(L, j, i))
    H.prove("pattern symmetric", all((j, i) in set(pat) for (i, j) in pat))
    # 5. negative semi-definite with a sum-of-squares certificate; kernel = constants
    Lf = K.elems(L @ f)
    quad = K.total(K.at(f, i) * areas[i] * Lf[i] for i in range(ns))
    sos = K.total(
        (K.at(em.dual_edge_lengths, e) / K.at(em.edge_lengths, e)) * (K.at(f, int(i)) - K.at(f, int(j))) ** 2
        for e, (i, j) in enumerate(em.edges)
    )
    H.prove_eq("-f^T a L f = sum_e w_e (f_i - f_j)^2", -quad, sos)
    for e in range(ne):
        H.prove(f"w_e > 0 [{e}]", K.at(em.dual_edge_lengths, e) / K.at(em.edge_lengths, e) > 0)
    ones = H.array([1.0] * ns)
    H.prove_all_eq("L 1 = 0", L @ ones, H.array([0.0] * ns))
    H.prove("edge graph connected (kernel = constants)", K.connected(ns, em.edges))

    # 6. covariant Laplacian Hermitian in the area-weighted inner product, for any link phases
    theta = H.array([H.phase(f"th{e}") for e in range(ne)])
    Alink = K.link_exponents_for(H, mesh, theta)
    LA, _ = ops.build_laplacian(mesh, link_exponents=Alink)
    GA = ops.build_gradient(mesh, link_exponents=Alink)
    patA = K.pattern(LA)
    for (i, j) in patA:
        if i <= j:
            H.prove_eq(f"a_i LA_ij = conj(a_j LA_ji) [{i},{j}]", areas[i] * K.entry(LA, i, j), K.conj(areas[j] * K.entry(LA, j, i)))
    H.prove("covariant pattern symmetric", all((j, i) in set(patA) for (i, j) in patA))
    # covariant Laplacian reduces to the scalar one at zero phase: same pattern
    H.prove("covariant pattern = scalar pattern", patA == pat)
    # the operators *in use* after an in-place refresh (MeshOperators.set_link_exponents called
    # again with the new potential) obey the same identities
    from tdgl.solver.options import SparseSolver

    theta0 = H.array([H.phase(f"th0_{e}") for e in range(ne)])
    mo = ops.MeshOperators(mesh, SparseSolver.SUPERLU, fixed_sites=np.array([], dtype=np.int64), fix_psi=True)
    mo.set_link_exponents(K.link_exponents_for(H, mesh, theta0))  # build
    mo.set_link_exponents(Alink)  # refresh in place
    LR = mo.psi_laplacian
    H.prove("refreshed covariant pattern = built pattern", K.pattern(LR) == patA)
    for (i, j) in patA:
        if i <= j:
            H.prove_eq(f"refreshed: a_i LA_ij = conj(a_j LA_ji) [{i},{j}]", areas[i] * K.entry(LR, i, j), K.conj(areas[j] * K.entry(LR, j, i)))
    # the same with terminal sites handed over but psi not pinned there (what the solver does for
    # terminal_psi = None: the sites only carry the boundary condition of mu) - the operator is the full
    # covariant Laplacian and must stay Hermitian through a refresh
    fixed = np.asarray(mesh.boundary_indices[:2], dtype=np.int64)
    mu_ = ops.MeshOperators(mesh, SparseSolver.SUPERLU, fixed_sites=fixed, fix_psi=False)
    mu_.set_link_exponents(K.link_exponents_for(H, mesh, theta0))  # build
    mu_.set_link_exponents(Alink)  # refresh in place
    LU_ = mu_.psi_laplacian
    H.prove("unpinned terminal sites: refreshed covariant pattern = built pattern", K.pattern(LU_) == patA)
    for (i, j) in patA:
        if i <= j:
            H.prove_eq(f"unpinned terminal sites, refreshed: a_i LA_ij = conj(a_j LA_ji) [{i},{j}]", areas[i] * K.entry(LU_, i, j), K.conj(areas[j] * K.entry(LU_, j, i)))
    # covariant gradient row structure: (GA psi)_e = (U_e psi_j - psi_i)/e_e
    psi = H.cplxs("p", ns)
    GApsi = K.elems(GA @ psi)
    for e, (i, j) in enumerate(em.edges):
        U = H.exp_i(-K.at(theta, e)) if H.mode == "sym" else np.exp(-1j * K.at(theta, e))
        H.prove_eq(f"(GA psi)_e [{e}]", GApsi[e], (U * K.at(psi, int(j)) - K.at(psi, int(i))) / K.at(em.edge_lengths, e))


def body_linear(H, case):
    """Gradient exact on linear functions, with lengths derived from symbolic coordinates."""
    import tdgl.finite_volume.operators as ops
    from tdgl.finite_volume.edge_mesh import EdgeMesh
    from tdgl.finite_volume.mesh import Mesh
    from tdgl.finite_volume.util import generate_voronoi_vertices

    pts, tris = meshes.coords(case.mesh)
    n = len(pts)
    # symbolic coordinates in a box around the concrete ones (keeps orientation / non-degeneracy)
    rows = []
    for i in range(n):
        rows.append([
            H.real(f"x{i}", lo=float(pts[i, 0]) - 0.1, hi=float(pts[i, 0]) + 0.1),
            H.real(f"y{i}", lo=float(pts[i, 1]) - 0.1, hi=float(pts[i, 1]) + 0.1),
        ])
    sites = H.array2(rows)
    dual = generate_voronoi_vertices(sites, tris)
    em = EdgeMesh.from_mesh(sites, tris, dual)
    mesh = Mesh(sites, tris, boundary_indices=[0], areas=H.reals("a", n, pos=True), edge_mesh=em)
    G = ops.build_gradient(mesh)
    c0, gx, gy = H.real("c0"), H.real("gx"), H.real("gy")
    f = H.array([c0 + gx * K.at(sites, i, 0) + gy * K.at(sites, i, 1) for i in range(n)])
    Gf = K.elems(G @ f)
    for e in range(len(em.edges)):
        nd = em.normalized_directions
        H.prove_eq(f"(G f)_e = g . t_e [{e}]", Gf[e], gx * K.at(nd, e, 0) + gy * K.at(nd, e, 1))
        # edge vectors / lengths / centres are those of the site pair
        i, j = int(em.edges[e][0]), int(em.edges[e][1])
        dx = K.at(sites, j, 0) - K.at(sites, i, 0)
        dy = K.at(sites, j, 1) - K.at(sites, i, 1)
        H.prove_eq(f"length^2 [{e}]", K.at(em.edge_lengths, e) ** 2, dx * dx + dy * dy)
        H.prove_eq(f"direction x [{e}]", K.at(em.directions, e, 0), dx)
        H.prove_eq(f"direction y [{e}]", K.at(em.directions, e, 1), dy)
