#!/bin/bash
# usage: run_all.sh [tier] [seed]  -- runs every registered check, prints exit code and wall time
cd /verif
TIER=${1:-quick}; SEED=${2:-1}
for id in $(python3 -c "import json; print(' '.join(c['property_id'] for c in json.load(open('MANIFEST.json'))['checks']))"); do
  t0=$(date +%s)
  VERIF_SEED=$SEED timeout 7200 ./check $id --tier $TIER > /tmp/all.$id.$TIER.log 2>&1; rc=$?
  t1=$(date +%s)
  echo "$id exit=$rc wall=$((t1-t0))s $(grep -c '^VIOLATION' /tmp/all.$id.$TIER.log) violations $(grep -c '^KNOWN-FINDING' /tmp/all.$id.$TIER.log) known"
done
