"""C18 (partial) - Polygon and device geometry operations mean what they say.

Everything geometric in `tdgl.device.polygon` / `tdgl.device.device` is delegated to shapely (GEOS)
and matplotlib.path (Agg), compiled code that cannot be executed symbolically.  What *is* Python -
the storage of vertices (closing, orientation), the arguments handed to the affine transforms, the
in-place flag, copies, the folding of n-ary set operations and of the operators + - *, and the Boolean
composition of `Device.contains_points` - is executed symbolically against a vertex-level model of
those libraries (`symx/fakegeo.py`: exact affine maps and shoelace orientation; validity, the vertices
of set-operation results and point membership uninterpreted).  Every claim is replayed on the
unpatched code with the real shapely / matplotlib, which is what validates the model."""
import math

import numpy as np

from symx import engine, fakegeo
from symx.engine import Case

from . import common as K

ID = "C18"
ENCODED = [
    "tdgl.device.polygon:Polygon.__init__",
    "tdgl.device.polygon:Polygon.points (setter)",
    "tdgl.device.polygon:Polygon.polygon",
    "tdgl.device.polygon:Polygon.area",
    "tdgl.device.polygon:Polygon.contains_points",
    "tdgl.device.polygon:Polygon.rotate",
    "tdgl.device.polygon:Polygon.translate",
    "tdgl.device.polygon:Polygon.scale",
    "tdgl.device.polygon:Polygon._join_via",
    "tdgl.device.polygon:Polygon.union",
    "tdgl.device.polygon:Polygon.intersection",
    "tdgl.device.polygon:Polygon.difference",
    "tdgl.device.polygon:Polygon.__add__/__sub__/__mul__",
    "tdgl.device.polygon:Polygon.copy",
    "tdgl.geometry:close_curve",
    "tdgl.device.device:Device.__init__",
    "tdgl.device.device:Device.contains_points",
    "tdgl.device.device:Device.copy",
    "tdgl.device.device:Device.rotate",
    "tdgl.device.device:Device.scale",
    "tdgl.device.device:Device.translate",
]
BOUNDS = {
    "quick": dict(shapes=["triangle", "box"], probes=2, holes=[0, 2], chains="every 1- and 2-operand call of union / intersection / difference, the operators + - *, two mixed chains"),
    "thorough": dict(shapes=["triangle", "box", "pentagon", "hexagon"], probes=3, holes=[0, 1, 2], chains="as quick"),
}
ASSUMPTIONS = [
    "shapely and matplotlib.path replaced by a vertex-level model: a polygon is its closed exterior ring; orient() reverses a ring with negative shoelace area; affinity.rotate/translate/scale map every vertex by the documented affine map (origin a point or 'centroid'); area = shoelace area",
    "validity is assumed (GEOS decides it); the vertices of a union / intersection / difference are fresh unknowns and its region is the Boolean combination of the operands' regions; point membership is an uninterpreted predicate of (region, point, sign of the margin)",
    "vertices symbolic within +-0.1 of a nominal convex shape (both orientations, open or closed input); transformation parameters symbolic (|translation| <= 50, scale factors 0.2..3 of either sign, any angle)",
    "concrete replays use the real shapely / matplotlib with probe points farther than 1e-6 from every operand boundary",
]
OUTSIDE = [
    "that GEOS' union / intersection / difference agree with point-wise membership, that Agg's point-in-path test agrees with GEOS, validity checking, results that are not single polygons, buffer / resample (GEOS, scipy splines)",
    "shapes beyond small convex polygons; that membership is preserved by an affine map of shape and point (a fact about GEOS / Agg, not about tdgl's code)",
    "the rebuild of the finite-volume mesh inside Device.translate (C07's subject; a stub that installs the shifted points in the symbolic run, the real rebuild in every concrete run)",
]
FEASIBILITY = "all"
TV_SAMPLES = {"quick": 2, "thorough": 2}
DEFAULT_SLICE = True

NOMINAL = {
    "triangle": [(0.0, 0.0), (2.0, 0.2), (0.7, 1.6)],
    "box": [(0.0, 0.0), (2.0, 0.0), (2.0, 1.0), (0.0, 1.0)],
    "pentagon": [(0.0, 0.0), (2.0, -0.3), (3.0, 1.0), (1.5, 2.2), (-0.4, 1.2)],
    "hexagon": [(1.0, 0.0), (2.0, 0.0), (2.6, 0.9), (2.0, 1.8), (1.0, 1.8), (0.4, 0.9)],
}


def patch_spec(case):
    mods = ["tdgl.device.polygon", "tdgl.device.device", "tdgl.geometry"]
    if case.params.get("kind") == "sharedmesh":
        mods += ["tdgl.finite_volume.mesh", "tdgl.finite_volume.edge_mesh", "tdgl.finite_volume.util"]
    spec = engine.std_patch(*mods)
    spec["tdgl.device.polygon"].update(geo=fakegeo.Geo, affinity=fakegeo.Affinity, explain_validity=fakegeo.explain_validity, path=fakegeo.PathModule)
    spec["tdgl.device.device"].update(affinity=fakegeo.Affinity, Point=fakegeo.ModelPoint)
    return spec


def cases(tier, seed):
    b = BOUNDS[tier]
    out = []
    for sh in b["shapes"]:
        out.append(Case(f"store:{sh}", kind="store", shape=sh, seed=seed))
        for op in ("translate", "rotate", "scale"):
            out.append(Case(f"affine:{op}:{sh}", kind="affine", op=op, shape=sh, seed=seed))
    out.append(Case("setops", kind="setops", probes=b["probes"], seed=seed))
    for op in ("translate", "rotate", "scale"):
        out.append(Case(f"membership-after-inplace:{op}", kind="stale", op=op, seed=seed))
    for nh in b["holes"]:
        out.append(Case(f"device:holes={nh}", kind="device", holes=nh, probes=b["probes"], seed=seed))
    for op in ("translate", "rotate", "scale"):
        out.append(Case(f"device-transform:{op}", kind="devtf", op=op, seed=seed))
    from symx import meshes

    meshes.warm(["T2"], seed)
    out.append(Case("device-translate-in-place:mesh-shared-with-a-copy", kind="sharedmesh", seed=seed))
    return out


def body(H, case):
    if H.mode == "sym":
        fakegeo.reset()
    return globals()["body_" + case.kind](H, case)


# ---- helpers -----------------------------------------------------------------------------------------------
def vertices(H, shape, tag="v", reverse=False, shift=(0.0, 0.0)):
    pts = [(H.real(f"{tag}{i}x", lo=x + shift[0] - 0.1, hi=x + shift[0] + 0.1), H.real(f"{tag}{i}y", lo=y + shift[1] - 0.1, hi=y + shift[1] + 0.1)) for i, (x, y) in enumerate(NOMINAL[shape])]
    return pts[::-1] if reverse else pts


def rows(P):
    """stored vertex array -> list of (x, y)"""
    n = np.shape(P.data if hasattr(P, "data") and not isinstance(P, np.ndarray) else P)[0]
    return [(K.at(P, i, 0), K.at(P, i, 1)) for i in range(n)]


def shoelace(ring):
    a = 0.0
    for (x0, y0), (x1, y1) in zip(ring[:-1], ring[1:]):
        a = a + (x0 * y1 - x1 * y0)
    return a * 0.5


def same_term(H, a, b):
    if H.mode == "sym" and hasattr(a, "re") and hasattr(b, "re"):
        return str(a.re) == str(b.re)
    return bool(a == b)


def snapshot(poly):
    return [(x, y) for (x, y) in rows(poly.points)]


def unchanged(H, poly, snap):
    now = rows(poly.points)
    return len(now) == len(snap) and all(same_term(H, a[0], b[0]) and same_term(H, a[1], b[1]) for a, b in zip(now, snap))


def shares_memory(a, b):
    da = a.data if hasattr(a, "data") and not isinstance(a, np.ndarray) else a
    db = b.data if hasattr(b, "data") and not isinstance(b, np.ndarray) else b
    return bool(np.shares_memory(da, db))


def stored_claims(H, tag, poly, expect, reversed_ok=True):
    """closed, counter-clockwise, and the same cyclic vertex sequence as `expect` (list of (x, y)),
    possibly traversed in the other direction"""
    ring = rows(poly.points)
    n = len(expect)
    H.prove(f"{tag}: stored ring has the n vertices plus the closing point", len(ring) == n + 1)
    if len(ring) != n + 1:
        return
    H.prove_eq(f"{tag}: stored ring is closed (x)", ring[0][0], ring[-1][0], scale=1.0)
    H.prove_eq(f"{tag}: stored ring is closed (y)", ring[0][1], ring[-1][1], scale=1.0)
    area = shoelace(ring)
    H.prove(f"{tag}: stored ring is counter-clockwise (shoelace area > 0)", area > 0)
    # which traversal? decided on this path by the sign of the input's shoelace area
    a_in = shoelace(list(expect) + [expect[0]])
    fwd = H.is_true(a_in > 0)
    seq = list(expect) if fwd else [expect[0]] + list(expect[1:])[::-1]
    if not fwd:
        # reversal of a closed ring v0..vn-1,v0 is v0,vn-1,..,v1,v0
        pass
    for k in range(n):
        H.prove_eq(f"{tag}: stored vertex {k} is the expected vertex (x)", ring[k][0], seq[k][0], scale=1.0)
        H.prove_eq(f"{tag}: stored vertex {k} is the expected vertex (y)", ring[k][1], seq[k][1], scale=1.0)
    return ring


# ---- storage ---------------------------------------------------------------------------------------------------
def body_store(H, case):
    import tdgl

    rev = H.choice("input orientation", ["ccw", "cw"]) == "cw"
    closed = H.choice("input ring", ["open", "closed"]) == "closed"
    how = H.choice("given as", ["array", "Polygon", "list"])
    V = vertices(H, case.shape, reverse=rev)
    given = V + [V[0]] if closed else V
    arr = H.array2([[x, y] for (x, y) in given])
    if how == "Polygon":
        arr = tdgl.Polygon("inner", points=arr)
    elif how == "list" and H.mode != "sym":
        arr = [list(map(float, r)) for r in np.asarray(arr)]
    p = tdgl.Polygon("p", points=arr)
    # expected: the vertices in counter-clockwise order starting from the first given vertex
    stored_claims(H, "Polygon(points)", p, V)
    H.prove_eq("area property = shoelace area of the stored ring", p.area, shoelace(rows(p.points)), scale=1.0)
    if how == "array":
        H.prove("the stored array is not the caller's array", not shares_memory(p.points, arr))


# ---- affine maps ------------------------------------------------------------------------------------------------
def body_affine(H, case):
    import tdgl

    V = vertices(H, case.shape)
    p = tdgl.Polygon("p", points=H.array2([[x, y] for (x, y) in V]))
    before = snapshot(p)
    pts_before = p.points
    inplace = H.choice("inplace", [False, True])
    op = case.op
    if op == "translate":
        dx, dy = H.real("dx", lo=-50.0, hi=50.0), H.real("dy", lo=-50.0, hi=50.0)
        q = p.translate(dx, dy, inplace=inplace)
        f = lambda x, y: (x + dx, y + dy)
        det_pos, factor = True, 1.0
    elif op == "rotate":
        deg = H.real("degrees", lo=-720.0, hi=720.0)
        origin_kind = H.choice("origin", ["point", "default"])
        ox, oy = (H.real("ox", lo=-5.0, hi=5.0), H.real("oy", lo=-5.0, hi=5.0)) if origin_kind == "point" else (0.0, 0.0)
        q = p.rotate(deg, origin=(ox, oy), inplace=inplace) if origin_kind == "point" else p.rotate(deg, inplace=inplace)
        u = H.exp_i(deg * (math.pi / 180.0))
        c, s = K.re(u), K.im(u)
        f = lambda x, y: (ox + c * (x - ox) - s * (y - oy), oy + s * (x - ox) + c * (y - oy))
        det_pos, factor = True, 1.0
    else:
        sx = H.choice("sign of xfact", [1, -1])
        sy = H.choice("sign of yfact", [1, -1])
        fx = H.real("fx_pos", lo=0.2, hi=3.0) if sx > 0 else H.real("fx_neg", lo=-3.0, hi=-0.2)
        fy = H.real("fy_pos", lo=0.2, hi=3.0) if sy > 0 else H.real("fy_neg", lo=-3.0, hi=-0.2)
        origin_kind = H.choice("origin", ["point", "default"])
        ox, oy = (H.real("ox", lo=-5.0, hi=5.0), H.real("oy", lo=-5.0, hi=5.0)) if origin_kind == "point" else (0.0, 0.0)
        q = p.scale(fx, fy, origin=(ox, oy), inplace=inplace) if origin_kind == "point" else p.scale(xfact=fx, yfact=fy, inplace=inplace)
        f = lambda x, y: (ox + fx * (x - ox), oy + fy * (y - oy))
        det_pos, factor = (sx * sy > 0), abs(fx * fy)
    H.prove("inplace=True returns the polygon itself, inplace=False a different object", (q is p) == bool(inplace))
    if not inplace:
        H.prove("the original's vertices are unchanged by a non-in-place transform", unchanged(H, p, before))
        H.prove("the original still holds its own array", p.points is pts_before)
        H.prove("result and original do not share memory", not shares_memory(q.points, p.points))
        H.prove("name and mesh flag are carried over", q.name == p.name and q.mesh == p.mesh)
    mapped = [f(x, y) for (x, y) in before[:-1]]
    ring = rows(q.points)
    n = len(mapped)
    H.prove("transformed ring has the n vertices plus the closing point", len(ring) == n + 1)
    if len(ring) != n + 1:
        return
    seq = mapped if det_pos else [mapped[0]] + mapped[1:][::-1]
    for k in range(n):
        H.prove_eq(f"vertex {k} of the result is the image of the corresponding vertex (x)", ring[k][0], seq[k][0], scale=1.0, timeout=60)
        H.prove_eq(f"vertex {k} of the result is the image of the corresponding vertex (y)", ring[k][1], seq[k][1], scale=1.0, timeout=60)
    H.prove_eq("result is stored closed (x)", ring[0][0], ring[-1][0], scale=1.0)
    H.prove_eq("result is stored closed (y)", ring[0][1], ring[-1][1], scale=1.0)
    a0, a1 = shoelace(before), shoelace(ring)
    H.prove("result is stored counter-clockwise", a1 > 0, timeout=60)
    H.prove_eq("area of the result = |fx fy| x area of the original (1 for rotations and translations)", a1, factor * a0, scale=1.0, timeout=60)
    H.prove_eq("area property of the result agrees", q.area, factor * a0, scale=1.0, timeout=60)


# ---- membership follows an in-place transform ---------------------------------------------------------------
def body_stale(H, case):
    """a polygon that was asked about membership and then transformed *in place* answers for its new vertices
    (a probe strictly inside the original box, far outside the transformed one)"""
    p = _box(H, "P", 0.0, 0.0, 2.0, 1.0)
    Q = H.array2([[H.real("qx", lo=0.8, hi=1.2), H.real("qy", lo=0.4, hi=0.6)]])
    before = p.contains_points(Q)
    cell_facts(H, "P", K.at(before, 0), 0, True)
    if case.op == "translate":
        r = p.translate(10.0, 5.0, inplace=True)
    elif case.op == "rotate":
        r = p.rotate(H.real("degrees", lo=170.0, hi=190.0), origin=(10.0, 10.0), inplace=True)
    else:
        r = p.scale(3.0, 3.0, origin=(-10.0, -10.0), inplace=True)
    H.prove("the in-place transform returns the polygon itself", r is p)
    import tdgl

    fresh = tdgl.Polygon("fresh", points=p.points)
    cell_facts(H, "transformed P (built afresh from the stored vertices)", K.at(fresh.contains_points(Q), 0), 0, False)
    after = K.at(p.contains_points(Q), 0)
    if H.mode == "sym":
        H.prove("after the in-place transform the probe is outside: membership is answered for the stored vertices", after == False)  # noqa: E712
    else:
        H.prove("after the in-place transform the probe is outside: membership is answered for the stored vertices", not bool(after))


# ---- set operations ------------------------------------------------------------------------------------------------
def _box(H, tag, x0, y0, x1, y1):
    import tdgl

    j = lambda nm, v: H.real(f"{tag}_{nm}", lo=v - 0.05, hi=v + 0.05)
    a, b, c, d = j("x0", x0), j("y0", y0), j("x1", x1), j("y1", y1)
    return tdgl.Polygon(tag, points=H.array2([[a, b], [c, b], [c, d], [a, d]]))


SET_CELLS = {  # a box strictly inside every cell of the arrangement of the nominal A, B, C (jitter 0.05)
    "A": ((0.5, 1.5), (0.5, 1.5)), "B": ((2.2, 2.8), (4.3, 5.7)), "C": ((3.3, 4.7), (-0.8, -0.2)),
    "AB": ((2.2, 2.8), (2.2, 3.8)), "AC": ((3.2, 3.8), (0.2, 1.8)), "BC": ((4.2, 4.8), (4.2, 4.8)),
    "ABC": ((3.2, 3.8), (2.2, 3.8)), "none": ((-1.8, -0.5), (5.0, 6.5)),
}


def probes_in_cells(H, cells, first, count):
    """`count` probe points, the j-th symbolic inside the cell (first + j) of the arrangement"""
    names = list(cells)
    chosen = [names[(first + j) % len(names)] for j in range(count)]
    Q = H.array2([[H.real(f"q{j}x_{c}", lo=cells[c][0][0], hi=cells[c][0][1]), H.real(f"q{j}y_{c}", lo=cells[c][1][0], hi=cells[c][1][1])] for j, c in enumerate(chosen)])
    return Q, chosen


def cell_facts(H, tag, member, j, truth):
    """membership of a probe that lies strictly inside a known cell of an arrangement of boxes: assumed
    in the symbolic run (GEOS / Agg decide it), checked in every concrete run"""
    if H.mode == "sym":
        H.assume(member == truth)
    else:
        if bool(member) != bool(truth):
            raise engine.HarnessError(f"{tag}: the real point-in-polygon test contradicts the cell of probe {j}")


def body_setops(H, case):
    import tdgl

    A = _box(H, "A", 0.0, 0.0, 4.0, 4.0)
    B = _box(H, "B", 2.0, 2.0, 6.0, 6.0)
    Cc = _box(H, "C", 3.0, -1.0, 5.0, 5.0)  # overlaps A, B and A*B; A-B-C, A+B+C, A*B*C are single polygons
    snaps = {nm: snapshot(P) for nm, P in (("A", A), ("B", B), ("C", Cc))}
    first = H.choice("cell of the first probe", list(range(len(SET_CELLS))))
    Q, chosen = probes_in_cells(H, SET_CELLS, first, case.probes)
    inA, inB, inC = A.contains_points(Q), B.contains_points(Q), Cc.contains_points(Q)
    for j, c in enumerate(chosen):
        cell_facts(H, "A", K.at(inA, j), j, "A" in c)
        cell_facts(H, "B", K.at(inB, j), j, "B" in c)
        cell_facts(H, "C", K.at(inC, j), j, "C" in c and c != "none")
    exprs = {
        "A.union(B)": (lambda: A.union(B)),
        "A.union(B, C)": (lambda: A.union(B, Cc)),
        "A.intersection(B)": (lambda: A.intersection(B)),
        "A.intersection(B, C)": (lambda: A.intersection(B, Cc)),
        "A.difference(B)": (lambda: A.difference(B)),
        "A.difference(B, C)": (lambda: A.difference(B, Cc)),
        "A + B": (lambda: A + B),
        "A - B": (lambda: A - B),
        "A * B": (lambda: A * B),
        "(A + B) - C": (lambda: (A + B) - Cc),
        "(A - B) * C": (lambda: (A - B) * Cc),
        "A.union() [no operand]": (lambda: A.union()),
    }
    for nm, make in exprs.items():
        R = make()
        got = R.contains_points(Q)
        for j, c in enumerate(chosen):
            ta, tb, tc = "A" in c, "B" in c, ("C" in c and c != "none")
            expect = {"A.union(B)": ta or tb, "A.union(B, C)": ta or tb or tc, "A.intersection(B)": ta and tb, "A.intersection(B, C)": ta and tb and tc,
                      "A.difference(B)": ta and not tb, "A.difference(B, C)": ta and not tb and not tc, "A + B": ta or tb, "A - B": ta and not tb, "A * B": ta and tb,
                      "(A + B) - C": (ta or tb) and not tc, "(A - B) * C": ta and not tb and tc, "A.union() [no operand]": ta}[nm]
            g = K.at(got, j)
            if H.mode == "sym":
                H.prove(f"{nm}: a probe in cell {c} is {'inside' if expect else 'outside'} the result", g == expect)
            else:
                H.prove(f"{nm}: a probe in cell {c} is {'inside' if expect else 'outside'} the result", bool(g) == bool(expect))
        H.prove(f"{nm}: the result is a new Polygon", R is not A and R is not B and R is not Cc and isinstance(R, tdgl.Polygon))
        H.prove(f"{nm}: the result does not share memory with an operand", not any(shares_memory(R.points, P.points) for P in (A, B, Cc)))
    # a result that is not simply connected must be refused, not silently replaced by its outline
    D = _box(H, "D", 0.6, 0.6, 1.4, 1.4)  # strictly inside A, away from B and C
    if H.mode == "sym":
        fakegeo.mark_inside(D.points, A.points)
    for nm, make in (("A.difference(D)", lambda: A.difference(D)), ("A - D", lambda: A - D)):
        try:
            R = make()
            refused = False
        except ValueError:
            refused = True
        H.prove(f"{nm} with D strictly inside A (the result has a hole) is refused with a ValueError", refused)
    for nm, P in (("A", A), ("B", B), ("C", Cc)):
        H.prove(f"operand {nm} is unchanged by all set operations", unchanged(H, P, snaps[nm]))


# ---- device ------------------------------------------------------------------------------------------------------
def make_device(H, nholes, probes=None):
    import tdgl

    layer = tdgl.Layer(coherence_length=1.0, london_lambda=2.0, thickness=0.1)
    film = _box(H, "film", 0.0, 0.0, 10.0, 6.0)
    holes = [_box(H, f"hole{k}", 1.0 + 4 * k, 1.0, 3.0 + 4 * k, 3.0) for k in range(nholes)]
    terms = [_box(H, "source", -0.5, 1.0, 0.5, 5.0), _box(H, "drain", 9.5, 1.0, 10.5, 5.0)]
    dev = tdgl.Device("dev", layer=layer, film=film, holes=holes, terminals=terms, probe_points=probes, length_units="nm")
    return dev, film, holes, terms


def body_device(H, case):
    dev, film, holes, terms = make_device(H, case.holes)
    cells = {"outside": ((-0.9, -0.6), (5.2, 5.8)), "film": ((8.2, 8.8), (0.3, 0.7))}
    for k in range(case.holes):
        cells[f"hole{k}"] = ((1.3 + 4 * k, 2.7 + 4 * k), (1.3, 2.7))
    first = H.choice("cell of the first probe", list(range(len(cells))))
    Q, chosen = probes_in_cells(H, cells, first, case.probes)
    inF = film.contains_points(Q)
    inH = [h.contains_points(Q) for h in holes]
    for j, c in enumerate(chosen):
        cell_facts(H, "film", K.at(inF, j), j, c != "outside")
        for k, hk in enumerate(inH):
            cell_facts(H, f"hole{k}", K.at(hk, j), j, c == f"hole{k}")
    got = dev.contains_points(Q)
    for j, c in enumerate(chosen):
        expect = c == "film"
        g = K.at(got, j)
        nm = f"a probe in cell '{c}' is {'inside' if expect else 'outside'} the device (inside the film and outside every hole)"
        if H.mode == "sym":
            H.prove(nm, g == expect)
        else:
            H.prove(nm, bool(g) == expect)
    # copies
    snaps = [snapshot(P) for P in dev.polygons]
    cp = dev.copy()
    H.prove("a copy has as many polygons", len(cp.polygons) == len(dev.polygons))
    for a, b, s in zip(dev.polygons, cp.polygons, snaps):
        H.prove(f"copy: polygon {a.name} is a different object with its own array", a is not b and not shares_memory(a.points, b.points))
        H.prove(f"copy: polygon {a.name} has the same name and vertices", a.name == b.name and unchanged(H, b, s))
    H.prove("copy: the layer is a different object with the same parameters", cp.layer is not dev.layer and cp.layer == dev.layer)
    H.prove("copy: same name and length units", cp.name == dev.name and cp.length_units == dev.length_units)
    # mutating the copy leaves the original alone
    cp.film.translate(1.0, 2.0, inplace=True)
    cp.holes and cp.holes[0].scale(2.0, 2.0, inplace=True)
    for a, s in zip(dev.polygons, snaps):
        H.prove(f"transforming the copy in place leaves {a.name} of the original unchanged", unchanged(H, a, s))


def body_sharedmesh(H, case):
    """`Device.copy()` hands the Mesh object of the original to the copy.  Translating one of the two in place must
    move its own mesh with it and leave the other device's mesh where that device's film is."""
    from types import SimpleNamespace

    from symx import meshes

    dev, film, holes, terms = make_device(H, 0)
    mesh = meshes.get("T2", case.seed)
    sites0 = np.array(mesh.sites, dtype=float)
    sym = H.mode == "sym"
    if sym:
        # every coordinate array of the mesh gets symbolic-array semantics (constants; in-place updates are tracked)
        wrap = lambda a: H.array2([[float(v) for v in row] for row in np.asarray(a, dtype=float)])
        for obj in (mesh, mesh.edge_mesh):
            for nm, val in list(vars(obj).items()):
                if isinstance(val, np.ndarray) and val.dtype.kind == "f" and val.ndim == 2:
                    setattr(obj, nm, wrap(val))
                elif isinstance(val, list) and val and all(isinstance(v, np.ndarray) and v.ndim == 2 for v in val):
                    setattr(obj, nm, [wrap(v) for v in val])
    dev.mesh = mesh
    cp = dev.copy(with_mesh=True)
    H.prove("the copy is a different device", cp is not dev)
    dx, dy = H.real("dx", lo=-50.0, hi=50.0), H.real("dy", lo=-50.0, hi=50.0)
    if sym:
        # the rebuild of the finite-volume mesh from the shifted points is C07's subject: here it installs a new mesh
        # object holding the points it was given
        def rebuild(points, triangles, _d=dev):
            _d.mesh = SimpleNamespace(sites=points / _d.coherence_length.magnitude, elements=triangles)

        dev._create_dimensionless_mesh = rebuild
    dev.translate(dx, dy, inplace=True)
    xi = float(dev.coherence_length.magnitude)
    for i in range(len(sites0)):
        H.prove_eq(f"site {i} of the untouched copy's mesh stays where it was (x)", K.at(cp.mesh.sites, i, 0), float(sites0[i, 0]), scale=1.0)
        H.prove_eq(f"site {i} of the untouched copy's mesh stays where it was (y)", K.at(cp.mesh.sites, i, 1), float(sites0[i, 1]), scale=1.0)
        H.prove_eq(f"site {i} of the translated device's mesh moved with it (x)", K.at(dev.mesh.sites, i, 0), float(sites0[i, 0]) + dx / xi, scale=1.0)
        H.prove_eq(f"site {i} of the translated device's mesh moved with it (y)", K.at(dev.mesh.sites, i, 1), float(sites0[i, 1]) + dy / xi, scale=1.0)
    fr_c, fr_d = rows(cp.film.points), rows(dev.film.points)
    H.prove_eq("the copy's film did not move", fr_c[0][0] + dx, fr_d[0][0], scale=1.0)


def body_devtf(H, case):
    # probe points strictly inside the film and outside the hole (membership of the cell: assumed in the symbolic
    # run, checked in every concrete run)
    film0 = _box(H, "film", 0.0, 0.0, 10.0, 6.0)
    hole0 = _box(H, "hole0", 1.0, 1.0, 3.0, 3.0)
    Q = H.array2([[H.real(f"pp{j}x", lo=8.2 - 2.0 * j, hi=8.8 - 2.0 * j), H.real(f"pp{j}y", lo=0.3 + 4.0 * j, hi=0.7 + 4.0 * j)] for j in range(2)])
    inF, inH = film0.contains_points(Q), hole0.contains_points(Q)
    for j in range(2):
        cell_facts(H, "film", K.at(inF, j), j, True)
        cell_facts(H, "hole0", K.at(inH, j), j, False)
    dev, film, holes, terms = make_device(H, 1, probes=Q)
    psnap = [(K.at(dev.probe_points, j, 0), K.at(dev.probe_points, j, 1)) for j in range(2)]
    parr = dev.probe_points
    snaps = [snapshot(P) for P in dev.polygons]
    if case.op == "translate":
        dx, dy = H.real("dx", lo=-50.0, hi=50.0), H.real("dy", lo=-50.0, hi=50.0)
        new = dev.translate(dx, dy)
        f = lambda x, y: (x + dx, y + dy)
        det_pos = True
    elif case.op == "rotate":
        deg = H.real("degrees", lo=-720.0, hi=720.0)
        ox, oy = 1.5, -0.75  # (Device.rotate / scale insist on a tuple of plain numbers)
        new = dev.rotate(deg, origin=(ox, oy))
        u = H.exp_i(deg * (math.pi / 180.0))
        c, s = K.re(u), K.im(u)
        f = lambda x, y: (ox + c * (x - ox) - s * (y - oy), oy + s * (x - ox) + c * (y - oy))
        det_pos = True
    else:
        sx = H.choice("sign of xfact", [1, -1])
        fx = H.real("fx_pos", lo=0.2, hi=3.0) if sx > 0 else H.real("fx_neg", lo=-3.0, hi=-0.2)
        fy = H.real("fy_pos", lo=0.2, hi=3.0)
        ox, oy = 1.5, -0.75
        new = dev.scale(xfact=fx, yfact=fy, origin=(ox, oy))
        f = lambda x, y: (ox + fx * (x - ox), oy + fy * (y - oy))
        det_pos = sx > 0
    H.prove("a transformed device is a new device with the same length units", new is not dev and new.length_units == dev.length_units)
    # probe points: the original keeps its array and values, the new device gets the images in an array of its own
    H.prove("the original device keeps its probe-point array", dev.probe_points is parr)
    now = [(K.at(dev.probe_points, j, 0), K.at(dev.probe_points, j, 1)) for j in range(2)]
    H.prove("probe points of the original device are unchanged", all(same_term(H, a[0], b[0]) and same_term(H, a[1], b[1]) for a, b in zip(now, psnap)))
    H.prove("the new device has probe points in an array of its own", new.probe_points is not None and not shares_memory(new.probe_points, parr))
    if new.probe_points is not None:
        for j in range(2):
            ix, iy = f(*psnap[j])
            H.prove_eq(f"probe point {j} of the new device is the image of the original one (x)", K.at(new.probe_points, j, 0), ix, scale=1.0, timeout=60)
            H.prove_eq(f"probe point {j} of the new device is the image of the original one (y)", K.at(new.probe_points, j, 1), iy, scale=1.0, timeout=60)
    for a, sn in zip(dev.polygons, snaps):
        H.prove(f"{a.name} of the original device is unchanged", unchanged(H, a, sn))
    for a, b, sn in zip(dev.polygons, new.polygons, snaps):
        mapped = [f(x, y) for (x, y) in sn[:-1]]
        seq = mapped if det_pos else [mapped[0]] + mapped[1:][::-1]
        ring = rows(b.points)
        H.prove(f"{a.name}: same number of vertices", len(ring) == len(sn))
        if len(ring) != len(sn):
            continue
        for k in range(len(seq)):
            H.prove_eq(f"{a.name}: vertex {k} is the image of the original vertex (x)", ring[k][0], seq[k][0], scale=1.0, timeout=60)
            H.prove_eq(f"{a.name}: vertex {k} is the image of the original vertex (y)", ring[k][1], seq[k][1], scale=1.0, timeout=60)
