"""Float evaluation of z3 terms under a concrete valuation of the declared inputs.

Used for (a) translator validation: the symbolic term the executor produced, evaluated at a
point, must equal what the real code computes at that point; (b) counter-example search by
full specialisation (every input pinned) when the solver answers `unknown`."""
import hashlib
import math
import struct

import numpy as np
import z3


class Reject(Exception):
    """The valuation is outside the domain (sqrt of negative, division by zero, unsatisfiable stub contract)."""


class Env:
    def __init__(self, ctx, values, lu_log=None, rng=None):
        self.ctx = ctx
        self.values = dict(values)  # var name -> float
        self.lu_log = lu_log or []
        self.rng = rng or np.random.default_rng(0)
        self._sqrt = {v.decl().name(): arg for (v, arg) in ctx.sqrt.values()}
        self._phase = {}
        for key, (c, s) in ctx.phase.items():
            self._phase[c.decl().name()] = ("cos", key)
            self._phase[s.decl().name()] = ("sin", key)
        for name, (c, s) in ctx.phase_atoms.items():
            self._phase[c.decl().name()] = ("cos", ("atom", name))
            self._phase[s.decl().name()] = ("sin", ("atom", name))
        self._lu_done = set()
        self.abs_sqrt = False
        self._quot = dict(getattr(ctx, "quot", {}))
        self.cache = {}

    # -- variables ---------------------------------------------------------------------
    def var(self, name):
        if name in self.values:
            return self.values[name]
        if name in self._sqrt:
            a = self.eval(self._sqrt[name])
            if a < -1e-12:
                if not self.abs_sqrt:
                    raise Reject(f"sqrt of negative ({a})")
                a = -a
            v = math.sqrt(max(a, 0.0))
        elif name in self._quot:
            n, d = self._quot[name]
            dv = self.eval(d)
            if dv == 0:
                raise Reject("quotient with zero denominator")
            v = self.eval(n) / dv
        elif name in self._phase:
            fn, key = self._phase[name]
            ang = self._angle(key)
            v = math.cos(ang) if fn == "cos" else math.sin(ang)
        elif name.startswith("lu") and "_" in name and name[2 : name.index("_")].isdigit():
            self._solve_lu(int(name[2 : name.index("_")]))
            v = self.values[name]
            return v
        elif name.startswith("uninit!"):
            v = float(self.rng.uniform(-3, 3))
        else:
            raise KeyError(name)
        self.values[name] = v
        return v

    def _angle(self, key):
        if key[0] == "atom":
            return self.var(key[1])
        if key[0] == "opaque":
            term = self.ctx.phase_terms[key]
            return self.eval(term)
        return sum(float(q) * self.var(n) for n, q in key)

    def _solve_lu(self, k):
        if k in self._lu_done:
            return
        rec = self.lu_log[k]
        M = rec["matrix"]
        n = M.shape[1]
        A = np.zeros(M.shape)
        for (i, j), e in M.entries.items():
            A[i, j] = self.eval_sc(e).real
        rhs = np.array([self.eval_sc(r).real for r in np.asarray(rec["rhs"].data if hasattr(rec["rhs"], "data") else rec["rhs"], dtype=object)])
        if np.all(rhs == 0):
            x = np.zeros(n)
        else:
            x, *_ = np.linalg.lstsq(A, rhs, rcond=None)
            if np.linalg.norm(A @ x - rhs) > 1e-8 * max(1.0, np.linalg.norm(rhs)):
                raise Reject("LU contract unsatisfiable at this valuation")
        for i in range(n):
            self.values[f"lu{k}_{i}"] = float(x[i])
        self._lu_done.add(k)

    # -- terms ---------------------------------------------------------------------------
    def eval_sc(self, x):
        from .core import Sc, SymBool

        if isinstance(x, Sc):
            return complex(self.eval(x.re), self.eval(x.im))
        if isinstance(x, SymBool):
            return bool(self.eval(x.e))
        return complex(x)

    def eval(self, e):
        """Evaluate a z3 Real/Bool term to float/bool (iterative post-order with memo)."""
        cache = self.cache
        stack = [(e, False)]
        while stack:
            t, done = stack.pop()
            tid = t.get_id()
            if tid in cache:
                continue
            if not done:
                if z3.is_rational_value(t):
                    cache[tid] = t.numerator_as_long() / t.denominator_as_long()
                    continue
                if z3.is_algebraic_value(t):
                    a = t.approx(20)
                    cache[tid] = a.numerator_as_long() / a.denominator_as_long()
                    continue
                if z3.is_true(t):
                    cache[tid] = True
                    continue
                if z3.is_false(t):
                    cache[tid] = False
                    continue
                if z3.is_const(t) and t.decl().kind() == z3.Z3_OP_UNINTERPRETED:
                    name = t.decl().name()
                    if z3.is_bool(t):
                        cache[tid] = bool(self.values.get(name, False))
                    else:
                        cache[tid] = self.var(name)
                    continue
                stack.append((t, True))
                for c in t.children():
                    if c.get_id() not in cache:
                        stack.append((c, False))
                continue
            k = t.decl().kind()
            ch = [cache[c.get_id()] for c in t.children()]
            cache[tid] = self._apply(t, k, ch)
        return cache[e.get_id()]

    def _apply(self, t, k, ch):
        Z = z3
        if k == Z.Z3_OP_ADD:
            return math.fsum(ch)
        if k == Z.Z3_OP_SUB:
            return ch[0] - math.fsum(ch[1:])
        if k == Z.Z3_OP_UMINUS:
            return -ch[0]
        if k == Z.Z3_OP_MUL:
            r = 1.0
            for c in ch:
                r *= c
            return r
        if k == Z.Z3_OP_DIV:
            if ch[1] == 0:
                raise Reject("division by zero")
            return ch[0] / ch[1]
        if k == Z.Z3_OP_POWER:
            try:
                r = ch[0] ** ch[1]
            except (ZeroDivisionError, OverflowError, ValueError):
                raise Reject("power domain")
            if isinstance(r, complex):
                raise Reject("power domain")
            return r
        if k == Z.Z3_OP_ITE:
            return ch[1] if ch[0] else ch[2]
        if k == Z.Z3_OP_LE:
            return ch[0] <= ch[1]
        if k == Z.Z3_OP_LT:
            return ch[0] < ch[1]
        if k == Z.Z3_OP_GE:
            return ch[0] >= ch[1]
        if k == Z.Z3_OP_GT:
            return ch[0] > ch[1]
        if k == Z.Z3_OP_EQ:
            a, b = ch
            if isinstance(a, bool) or isinstance(b, bool):
                return a == b
            return abs(a - b) <= 1e-9 * max(1.0, abs(a), abs(b))
        if k == Z.Z3_OP_DISTINCT:
            a, b = ch
            return not (abs(a - b) <= 1e-9 * max(1.0, abs(a), abs(b)))
        if k == Z.Z3_OP_AND:
            return all(ch)
        if k == Z.Z3_OP_OR:
            return any(ch)
        if k == Z.Z3_OP_NOT:
            return not ch[0]
        if k == Z.Z3_OP_IMPLIES:
            return (not ch[0]) or ch[1]
        if k == Z.Z3_OP_XOR:
            return ch[0] != ch[1]
        if k == Z.Z3_OP_TO_REAL:
            return float(ch[0])
        if k == Z.Z3_OP_TO_INT:
            import math as _m

            return _m.floor(ch[0])
        if k == Z.Z3_OP_UNINTERPRETED:
            return self._opaque(t.decl().name(), ch)
        raise NotImplementedError(f"feval: operator {t.decl().name()} ({k})")

    def _opaque(self, name, args):
        hooks = getattr(self.ctx, "opaque_eval", {})
        if name in hooks:
            return hooks[name](*args)
        if name == "pow":
            try:
                r = float(args[0]) ** float(args[1])
            except (ZeroDivisionError, OverflowError, ValueError):
                raise Reject("pow domain")
            if isinstance(r, complex):
                raise Reject("pow domain")
            return r
        if name == "atan2":
            return math.atan2(args[0], args[1])
        h = hashlib.sha256((name + "|" + "|".join(struct.pack("<d", float(a)).hex() for a in args)).encode()).digest()
        return (int.from_bytes(h[:8], "little") / 2**64) * 2 - 1


def parse_model_value(v):
    if isinstance(v, bool):
        return v
    if isinstance(v, (int, float)):
        return float(v)
    if isinstance(v, dict) and "float" in v:
        return float(v["float"])
    if isinstance(v, str) and "/" in v:
        a, b = v.split("/")
        return int(a) / int(b)
    try:
        return float(v)
    except Exception:
        return None


class HashEnv(Env):
    """Environment that assigns every free variable a pseudo-random value derived from its
    name (used for fingerprinting terms when merging auxiliary variables)."""

    def __init__(self, ctx, seed):
        super().__init__(ctx, {}, lu_log=None)
        self.seed = seed
        self.abs_sqrt = True

    def _hashval(self, name, lo=0.3, hi=1.7):
        h = hashlib.sha256(f"{self.seed}|{name}".encode()).digest()
        return lo + (hi - lo) * (int.from_bytes(h[:8], "little") / 2**64)

    def var(self, name):
        if name in self.values:
            return self.values[name]
        try:
            if name.startswith("lu") and "_" in name:
                raise KeyError(name)
            return super().var(name)
        except KeyError:
            v = self._hashval(name)
            self.values[name] = v
            return v

    def _angle(self, key):
        if key[0] == "atom":
            return self._hashval("angle:" + key[1], -3.0, 3.0)
        return super()._angle(key)
