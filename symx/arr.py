"""SymArray (SA): an object-dtype ndarray of Sc / SymBool / plain numbers that exposes only
whitelisted operations with correct complex semantics; the `np` and `sp` facades that are
rebound as module globals of the modules under analysis."""
import types

import numpy as _np
import z3

from .core import (
    CTX,
    ONE,
    ZERO,
    Sc,
    SymBool,
    Unsupported,
    _is_quantity,
    is_zero,
    simp,
    sym_float,
    to_real,
)


def _d(x):
    return x.data if isinstance(x, SA) else x


def _obj(x):
    return _np.asarray(_d(x), dtype=object)


def _sc(x):
    return x if isinstance(x, (Sc, SymBool)) else Sc.of(x)


def _map(f, a):
    return SA(_np.frompyfunc(f, 1, 1)(_obj(a)))


def _map2(f, a, b):
    return SA(_np.frompyfunc(f, 2, 1)(_obj(a), _obj(b)))


def _wrap(r):
    if isinstance(r, _np.ndarray):
        return SA(r)
    return r


def _key(k):
    if isinstance(k, tuple):
        return tuple(_keyelem(x) for x in k)
    return _keyelem(k)


def _keyelem(x):
    if isinstance(x, SA):
        # boolean/int index arrays must be concrete
        arr = x.data
        if all(isinstance(v, (bool, _np.bool_, int, _np.integer)) for v in arr.ravel()):
            return _np.asarray(arr.tolist())
        if all(isinstance(v, (bool, _np.bool_, SymBool)) for v in arr.ravel()):
            # boolean mask with symbolic entries: each entry becomes a branch decision
            return _np.asarray([bool(v) for v in arr.ravel()]).reshape(arr.shape)
        raise Unsupported("indexing with a symbolic array")
    if isinstance(x, (Sc, SymBool)):
        raise Unsupported("indexing with a symbolic scalar")
    return x


def kind_of(x):
    if isinstance(x, SA):
        return x.kind
    if isinstance(x, (complex, _np.complexfloating)):
        return "c"
    if isinstance(x, Sc):
        return "f" if is_zero(x.im) else "c"
    if isinstance(x, _np.ndarray) and x.dtype != object:
        return "c" if _np.iscomplexobj(x) else ("b" if x.dtype == bool else "f")
    if isinstance(x, _np.ndarray):
        flat = x.ravel()
        if flat.size and all(isinstance(v, (SymBool, bool, _np.bool_)) for v in flat):
            return "b"
        for v in flat:
            if isinstance(v, (complex, _np.complexfloating)) or (isinstance(v, Sc) and not is_zero(v.im)):
                return "c"
        return "f"
    return "f"


def _join_kind(*xs):
    ks = [kind_of(x) for x in xs]
    return "c" if "c" in ks else None


def has_sym(x, _depth=0):
    if isinstance(x, (SA, Sc, SymBool, SM)):
        return True
    if _depth < 3 and isinstance(x, (list, tuple)):
        return any(has_sym(e, _depth + 1) for e in x)
    if _depth < 3 and isinstance(x, dict):
        return any(has_sym(e, _depth + 1) for e in x.values())
    if isinstance(x, _np.ndarray) and x.dtype == object and x.size and x.size < 4096:
        return any(isinstance(e, (Sc, SymBool, SA)) for e in x.ravel())
    return False


class SA:
    """Symbolic array."""

    __array_priority__ = 1000

    def __array_ufunc__(self, ufunc, method, *inputs, **kwargs):
        """numpy ufuncs applied to symbolic arrays by unpatched code (pint): dispatch to the
        operators / shims; anything else is refused loudly."""
        import operator as _op

        if method != "__call__" or kwargs.get("out") is not None:
            raise Unsupported(f"numpy ufunc {ufunc.__name__}.{method} on a symbolic array")
        name = ufunc.__name__
        binary = {"add": _op.add, "subtract": _op.sub, "multiply": _op.mul, "true_divide": _op.truediv, "divide": _op.truediv,
                  "power": _op.pow, "greater": _op.gt, "less": _op.lt, "greater_equal": _op.ge, "less_equal": _op.le,
                  "equal": _op.eq, "not_equal": _op.ne, "maximum": maximum, "minimum": minimum}
        unary = {"negative": _op.neg, "absolute": absolute, "sqrt": sqrt, "exp": exp, "conjugate": conj, "isnan": isnan,
                 "isfinite": isfinite, "square": square, "positive": _op.pos}
        if name in binary and len(inputs) == 2:
            a, b = inputs
            if not isinstance(a, SA):
                a = SA(_np.asarray(a, dtype=object)) if isinstance(a, _np.ndarray) else a
            return binary[name](a, b)
        if name in unary and len(inputs) == 1:
            return unary[name](inputs[0])
        raise Unsupported(f"numpy ufunc {name} on a symbolic array")

    def __init__(self, data, kind=None):
        if isinstance(data, SA):
            kind = kind or data._kind
            data = data.data
        elif isinstance(data, _np.ndarray) and data.dtype != object and kind is None:
            kind = "c" if _np.iscomplexobj(data) else ("b" if data.dtype == bool else "f")
        self.data = _np.asarray(data, dtype=object)
        self._kind = kind

    @property
    def kind(self):
        """'c' complex, 'f' real, 'b' boolean: explicit if known, else inferred from the elements."""
        if self._kind is not None:
            return self._kind
        return kind_of(self.data)

    # numpy must never silently convert an SA -------------------------------------------
    def is_concrete(self):
        return not any(isinstance(v, (Sc, SymBool, SA)) for v in self.data.ravel())

    def to_numpy(self):
        k = self.kind
        return _np.array(self.data.tolist(), dtype={"c": complex, "b": bool}.get(k, float)).reshape(self.data.shape)

    def __array__(self, dtype=None, copy=None):
        # an SA that holds only plain numbers (e.g. the result of np.ones in a patched module) may
        # cross into unpatched code; anything symbolic must never be converted silently
        if self.is_concrete():
            a = self.to_numpy()
            return a.astype(dtype) if dtype is not None else a
        raise Unsupported("implicit conversion of a symbolic array to numpy.ndarray")

    def __array_function__(self, func, types_, args, kwargs):
        name = func.__name__

        def conc(x):
            if isinstance(x, SA):
                if not x.is_concrete():
                    raise Unsupported(f"numpy.{name} called on a symbolic array from unpatched code")
                return x.to_numpy()
            if isinstance(x, (list, tuple)):
                return type(x)(conc(e) for e in x)
            return x

        def any_symbolic(x):
            if isinstance(x, SA):
                return not x.is_concrete()
            if isinstance(x, (list, tuple)):
                return any(any_symbolic(e) for e in x)
            return isinstance(x, (Sc, SymBool))

        if name in SHIMS and (any_symbolic(args) or any_symbolic(list(kwargs.values()))):
            return SHIMS[name](*args, **kwargs)
        return func(*[conc(a) for a in args], **{k: conc(v) for k, v in kwargs.items()})

    # shape protocol -----------------------------------------------------------------------
    @property
    def shape(self):
        return self.data.shape

    @property
    def ndim(self):
        return self.data.ndim

    @property
    def size(self):
        return self.data.size

    @property
    def dtype(self):
        return _np.dtype({"c": complex, "b": bool}.get(self.kind, float))

    def __len__(self):
        return len(self.data)

    def __iter__(self):
        return iter([SA(x) if isinstance(x, _np.ndarray) else x for x in self.data])

    def __getitem__(self, k):
        r = self.data[_key(k)]
        return SA(r, self._kind) if isinstance(r, _np.ndarray) else r

    def __setitem__(self, k, v):
        self.data[_key(k)] = _d(v)

    def __repr__(self):
        return f"SA({self.data!r})"

    # arithmetic --------------------------------------------------------------------------
    def _bin(self, o, f):
        if _is_quantity(o):
            return NotImplemented
        od = _d(o)
        k = "c" if (self._kind == "c" or (isinstance(o, SA) and o._kind == "c") or isinstance(od, (complex, _np.complexfloating))
                    or (isinstance(od, _np.ndarray) and od.dtype != object and _np.iscomplexobj(od))) else None
        def g(a, b):
            # plain numbers stay plain (an SA of plain numbers may cross into unpatched code)
            if not isinstance(a, (Sc, SymBool)) and not isinstance(b, (Sc, SymBool)):
                return f(a, b)
            return f(_sc(a), b)

        if isinstance(od, (Sc, SymBool)):
            return SA(_np.frompyfunc(lambda a: f(_sc(a), od), 1, 1)(self.data), k)
        if isinstance(od, (list, tuple)):
            od = _np.asarray(od, dtype=object)
        if isinstance(od, _np.ndarray):
            return SA(_np.frompyfunc(g, 2, 1)(self.data, od), k)
        return SA(_np.frompyfunc(lambda a: g(a, od), 1, 1)(self.data), k)

    def __add__(s, o):
        return s._bin(o, lambda a, b: a + b)

    def __radd__(s, o):
        return s._bin(o, lambda a, b: b + a)

    def __sub__(s, o):
        return s._bin(o, lambda a, b: a - b)

    def __rsub__(s, o):
        return s._bin(o, lambda a, b: b - a)

    def __mul__(s, o):
        return s._bin(o, lambda a, b: a * b)

    def __rmul__(s, o):
        return s._bin(o, lambda a, b: b * a)

    def __truediv__(s, o):
        return s._bin(o, lambda a, b: a / b)

    def __rtruediv__(s, o):
        return s._bin(o, lambda a, b: b / a)

    # in-place operators write into the existing buffer (as numpy does): other names and views bound to the
    # same array observe the update
    def _inplace(self, o, f):
        r = self._bin(o, f)
        if r is NotImplemented:
            return r
        if r.shape != self.shape:
            raise ValueError(f"non-broadcastable output operand with shape {self.shape} doesn't match the broadcast shape {r.shape}")
        if r._kind == "c" and self.kind != "c":
            raise TypeError("Cannot cast ufunc output from dtype('complex128') to dtype('float64') with casting rule 'same_kind'")
        self.data[...] = r.data
        return self

    def __iadd__(s, o):
        return s._inplace(o, lambda a, b: a + b)

    def __isub__(s, o):
        return s._inplace(o, lambda a, b: a - b)

    def __imul__(s, o):
        return s._inplace(o, lambda a, b: a * b)

    def __itruediv__(s, o):
        return s._inplace(o, lambda a, b: a / b)

    def __pow__(s, k):
        if isinstance(k, SA) or isinstance(k, _np.ndarray):
            return _map2(lambda a, b: _sc(a) ** b, s, k)
        return _map(lambda x: _sc(x) ** k, s)

    def __rpow__(s, b):
        if isinstance(b, _np.ndarray):
            return _map2(lambda a, e: _sc(a) ** e, b, s)
        return _map(lambda x: Sc.of(b) ** _sc(x), s)

    def __neg__(s):
        r = _map(lambda x: -_sc(x), s)
        r._kind = s._kind
        return r

    def __pos__(s):
        return s

    def __abs__(s):
        return _map(lambda x: abs(_sc(x)), s)

    def __lt__(s, o):
        return s._bin(o, lambda a, b: a < b)

    def __le__(s, o):
        return s._bin(o, lambda a, b: a <= b)

    def __gt__(s, o):
        return s._bin(o, lambda a, b: a > b)

    def __ge__(s, o):
        return s._bin(o, lambda a, b: a >= b)

    def __eq__(s, o):
        return s._bin(o, lambda a, b: a == b)

    def __ne__(s, o):
        return s._bin(o, lambda a, b: a != b)

    def __invert__(s):
        return _map(lambda x: ~SymBool.of(x), s)

    def __and__(s, o):
        return s._bin(o, lambda a, b: SymBool.of(a) & SymBool.of(b))

    def __or__(s, o):
        return s._bin(o, lambda a, b: SymBool.of(a) | SymBool.of(b))

    __hash__ = None

    def __bool__(s):
        if s.data.size == 1:
            return bool(s.data.ravel()[0])
        raise ValueError("The truth value of an array with more than one element is ambiguous.")

    def __matmul__(s, o):
        return matmul(s, o)

    def __rmatmul__(s, o):
        return matmul(o, s)

    # methods -----------------------------------------------------------------------------
    def conjugate(s):
        r = _map(lambda x: _sc(x).conjugate(), s)
        r._kind = s._kind
        return r

    conj = conjugate

    @property
    def real(s):
        return _map(lambda x: _sc(x).real, s)

    @property
    def imag(s):
        return _map(lambda x: _sc(x).imag, s)

    @property
    def T(s):
        return SA(s.data.T, s._kind)

    def transpose(s, *a):
        return SA(s.data.transpose(*a))

    def copy(s):
        return SA(s.data.copy(), s._kind)

    def squeeze(s, axis=None):
        r = s.data.squeeze(axis=axis)
        return SA(r)

    def reshape(s, *a):
        return SA(s.data.reshape(*a))

    def ravel(s):
        return SA(s.data.ravel())

    def flatten(s):
        return SA(s.data.flatten())

    def tolist(s):
        return s.data.tolist()

    def item(s):
        if s.data.size != 1:
            raise ValueError("can only convert an array of size 1 to a Python scalar")
        return s.data.ravel()[0]

    def astype(s, dtype, copy=True):
        if dtype in (float, complex, _np.float64, _np.complex128, sym_float) or getattr(
            dtype, "_is_sym_float", False
        ):
            return s.copy()
        raise Unsupported(f"astype({dtype}) of a symbolic array")

    def sum(s, axis=None):
        return sum_(s, axis=axis)

    def max(s, axis=None):
        return max_(s, axis=axis)

    def min(s, axis=None):
        return min_(s, axis=axis)

    def mean(s, axis=None):
        return mean(s, axis=axis)

    def any(s):
        return any_(s)

    def all(s):
        return all_(s)

    def get(s):
        raise Unsupported("cupy .get() on symbolic array")


# --------------------------------------------------------------------------------------
# reductions
def _fold(vals, f):
    vals = list(vals)
    acc = vals[0]
    for v in vals[1:]:
        acc = f(acc, v)
    return acc


def _reduce(a, axis, f, empty=None):
    data = _obj(a)
    if axis is None:
        flat = list(data.ravel())
        if not flat:
            if empty is None:
                raise ValueError("reduction of empty array")
            return empty
        return f(flat)
    moved = _np.moveaxis(data, axis, -1)
    out = _np.empty(moved.shape[:-1], dtype=object)
    for idx in _np.ndindex(out.shape):
        out[idx] = f(list(moved[idx]))
    return SA(out)


def sum_(a, axis=None, **k):
    if not has_sym(a):
        return _np.sum(a, axis=axis)
    return _reduce(a, axis, lambda vs: _fold([_sc(v) for v in vs], lambda x, y: x + y), empty=Sc(ZERO))


def _max2(x, y):
    x, y = Sc.of(x), Sc.of(y)
    return Sc(simp(z3.If(y.re > x.re, y.re, x.re)))


def _min2(x, y):
    x, y = Sc.of(x), Sc.of(y)
    return Sc(simp(z3.If(y.re < x.re, y.re, x.re)))


def max_(a, axis=None, **k):
    if not has_sym(a):
        return _np.max(a, axis=axis)
    return _reduce(a, axis, lambda vs: _fold([Sc.of(v) for v in vs], _max2))


def min_(a, axis=None, **k):
    if not has_sym(a):
        return _np.min(a, axis=axis)
    return _reduce(a, axis, lambda vs: _fold([Sc.of(v) for v in vs], _min2))


def mean(a, axis=None, **k):
    if isinstance(a, (list, tuple)):
        if not has_sym(a):
            return _np.mean(a, axis=axis)
        a = SA(_np.array([_d(x) for x in a], dtype=object))
    if not isinstance(a, SA):
        return _np.mean(a, axis=axis)
    n = a.data.size if axis is None else a.data.shape[axis]
    return sum_(a, axis=axis) / n


def any_(a, axis=None):
    if not has_sym(a):
        return _np.any(a, axis=axis)
    es = [SymBool.of(v).e if isinstance(v, (SymBool, bool, _np.bool_)) else (Sc.of(v) != 0).e for v in _obj(a).ravel()]
    if not es:
        return False
    return SymBool(z3.simplify(z3.Or(*es)) if CTX.simplify else z3.Or(*es))


def all_(a, axis=None):
    if not has_sym(a):
        return _np.all(a, axis=axis)
    es = [SymBool.of(v).e if isinstance(v, (SymBool, bool, _np.bool_)) else (Sc.of(v) != 0).e for v in _obj(a).ravel()]
    if not es:
        return True
    return SymBool(z3.simplify(z3.And(*es)) if CTX.simplify else z3.And(*es))


# --------------------------------------------------------------------------------------
# shims: functions of the numpy namespace with symbolic semantics
def concatenate(arrs, axis=0, dtype=None, **k):
    arrs = list(arrs)
    if not has_sym(arrs):
        return _np.concatenate(arrs, axis=axis, dtype=dtype)
    arrs = [array(a) if isinstance(a, (list, tuple)) else a for a in arrs]
    return SA(_np.concatenate([_obj(a) for a in arrs], axis=axis), _join_kind(*arrs))


def stack(arrs, axis=0):
    arrs = list(arrs)
    if not has_sym(arrs):
        return _np.stack(arrs, axis=axis)
    return SA(_np.stack([_obj(a) for a in arrs], axis=axis))


def exp(x):
    if not has_sym(x):
        return _np.exp(x)
    if isinstance(x, Sc):
        return x.exp()
    r = _map(lambda v: Sc.of(v).exp(), x)
    if kind_of(x) == "c":
        r._kind = "c"
    return r


def radians(x):
    if not has_sym(x):
        return _np.radians(x)
    import math as _m

    return x * (_m.pi / 180.0)


def _trig(x, part):
    """cos / sin of a symbolic real angle through the phase algebra: (cos, sin) = (re, im) of exp(i x)"""
    from . import core as _C

    def one(v):
        v = Sc.of(v)
        if not v.isreal():
            raise Unsupported("cos / sin of a complex symbolic value")
        u = _C.exp_i(v.re)
        return Sc(u.re) if part == "re" else Sc(u.im)

    if isinstance(x, Sc):
        return one(x)
    return _map(one, x)


def cos(x):
    return _np.cos(x) if not has_sym(x) else _trig(x, "re")


def sin(x):
    return _np.sin(x) if not has_sym(x) else _trig(x, "im")


def diag(v, k=0):
    if not has_sym(v):
        return _np.diag(v, k)
    d = _np.asarray(_d(v), dtype=object)
    if d.ndim != 1 or k != 0:
        raise Unsupported("np.diag of a symbolic array other than a vector on the main diagonal")
    out = _np.empty((len(d), len(d)), dtype=object)
    for i in range(len(d)):
        for j in range(len(d)):
            out[i, j] = _sc(d[i]) if i == j else Sc.of(0.0)
    return SA(out)


def einsum(spec, *ops, **k):
    if not has_sym(ops):
        return _np.einsum(spec, *ops, **k)
    spec = spec.replace(" ", "")
    # object-dtype einsum of numpy works through multiply/add of the elements
    ops2 = []
    for o in ops:
        a = _obj(o)
        ops2.append(_np.frompyfunc(_sc, 1, 1)(a) if a.size else a)
    return _wrap(_np.einsum(spec, *ops2))


def asarray(x, dtype=None, **k):
    if hasattr(x, "sym_value"):
        x = x.sym_value()
    if isinstance(x, SA):
        return x
    if isinstance(x, Sc):
        return SA(_np.array(x, dtype=object))
    if has_sym(x):
        return array(x)
    if getattr(dtype, "_is_sym_float", False):
        dtype = float
    return _np.asarray(x, dtype=dtype)


def array(x, dtype=None, **k):
    if hasattr(x, "sym_value"):
        x = x.sym_value()
    if isinstance(x, SA):
        return x.copy()
    if has_sym(x):
        def conv(e):
            if isinstance(e, SA):
                return e.data
            if isinstance(e, (list, tuple)):
                return [conv(i) for i in e]
            return e

        if isinstance(x, (Sc, SymBool)):
            return SA(_np.array(x, dtype=object))
        lst = conv(x)
        out = _np.empty(_shape_of(lst), dtype=object)
        _fill(out, lst)
        return SA(out)
    if getattr(dtype, "_is_sym_float", False):
        dtype = float
    return _np.array(x, dtype=dtype, **k)


def _shape_of(lst):
    if isinstance(lst, _np.ndarray):
        return lst.shape
    if isinstance(lst, (list, tuple)):
        if not lst:
            return (0,)
        return (len(lst),) + _shape_of(lst[0])
    return ()


def _fill(out, lst):
    if out.ndim == 0:
        out[()] = lst
        return
    for i, e in enumerate(lst):
        if out.ndim == 1:
            out[i] = e
        else:
            _fill(out[i], e)


def _is_float_dtype(dtype):
    if dtype is None or getattr(dtype, "_is_sym_float", False):
        return True
    if dtype is complex or dtype is float:
        return True
    try:
        return _np.issubdtype(_np.dtype(dtype), _np.inexact)
    except TypeError:
        return False


def _shape_concrete(shape):
    if isinstance(shape, (int, _np.integer)):
        return (int(shape),)
    return tuple(int(s) for s in shape)


def _ckind(dtype):
    try:
        return "c" if (dtype is complex or (dtype is not None and not getattr(dtype, "_is_sym_float", False) and _np.issubdtype(_np.dtype(dtype), _np.complexfloating))) else None
    except TypeError:
        return None


def zeros(shape, dtype=None, **k):
    if _is_float_dtype(dtype):
        return SA(_np.full(_shape_concrete(shape), 0.0, dtype=object), _ckind(dtype))
    return _np.zeros(shape, dtype=dtype)


def ones(shape, dtype=None, **k):
    if _is_float_dtype(dtype):
        return SA(_np.full(_shape_concrete(shape), 1.0, dtype=object), _ckind(dtype))
    return _np.ones(shape, dtype=dtype)


def full(shape, fill, dtype=None, **k):
    if has_sym(fill) or _is_float_dtype(dtype if dtype is not None else type(fill)):
        out = _np.empty(_shape_concrete(shape), dtype=object)
        for i in _np.ndindex(out.shape):
            out[i] = fill
        return SA(out)
    return _np.full(shape, fill, dtype=dtype)


def _trunc(v):
    """C cast of a real to an integer type: truncation towards zero (NumPy's unsafe casting)"""
    import z3 as _z3

    v = Sc.of(v)
    if not v.isreal():
        raise Unsupported("cast of a complex symbolic value to an integer dtype")
    e = v.re
    return Sc(_z3.If(e >= 0, _z3.ToReal(_z3.ToInt(e)), -_z3.ToReal(_z3.ToInt(-e))))


def full_like(a, fill, dtype=None, **k):
    """np.full_like borrows shape *and dtype* of `a`: the fill value is cast to it (unsafe casting)"""
    dt = dtype if dtype is not None else (float if isinstance(a, SA) else _np.asarray(a).dtype)
    shape = _np.shape(_d(a))
    if has_sym(fill):
        if _is_float_dtype(dt):
            return full(shape, fill, float)
        if _np.issubdtype(_np.dtype(dt), _np.integer):
            return full(shape, _trunc(fill), float)
        raise Unsupported(f"np.full_like with a symbolic fill value and dtype {dt}")
    if isinstance(a, SA):
        return full(shape, fill, float)
    return _np.full_like(a, fill, dtype=dtype)


def empty(shape, dtype=None, **k):
    """np.empty models uninitialised memory: every cell is a fresh unconstrained symbol."""
    if not _is_float_dtype(dtype):
        return _np.zeros(shape, dtype=dtype)
    a = _np.empty(_shape_concrete(shape), dtype=object)
    for i in _np.ndindex(a.shape):
        v = CTX.fresh("uninit")
        CTX.uninit.append(v)
        a[i] = Sc(v)
    return SA(a)


def zeros_like(a, dtype=None, **k):
    if isinstance(a, SA) or _is_float_dtype(dtype if dtype is not None else _np.asarray(a).dtype):
        return zeros(_np.shape(_d(a)), float)
    return _np.zeros_like(a, dtype=dtype)


def ones_like(a, dtype=None, **k):
    if isinstance(a, SA) or _is_float_dtype(dtype if dtype is not None else _np.asarray(a).dtype):
        return ones(_np.shape(_d(a)), float)
    return _np.ones_like(a, dtype=dtype)


def empty_like(a, dtype=None, **k):
    return empty(_np.shape(_d(a)), dtype if dtype is not None else float)


def outer(a, b, **k):
    if isinstance(a, SA) or isinstance(b, SA):
        ad, bd = _np.asarray(_d(a), dtype=object).ravel(), _np.asarray(_d(b), dtype=object).ravel()
        out = _np.empty((len(ad), len(bd)), dtype=object)
        for i in range(len(ad)):
            for j in range(len(bd)):
                out[i, j] = Sc.of(ad[i]) * bd[j]
        return SA(out)
    return _np.outer(a, b)


class _LogicalUfunc:
    """np.logical_or / np.logical_and on (possibly symbolic) boolean arrays, with .reduce over a list"""

    def __init__(self, name, op, unit):
        self.__name__, self._op, self._unit = name, op, unit

    def __call__(self, a, b, **k):
        if not has_sym([a, b]):
            return getattr(_np, self.__name__)(a, b)
        return self._op(asarray(a), b)

    def reduce(self, arrays, axis=0, **k):
        arrays = list(arrays)
        if not has_sym(arrays):
            return getattr(_np, self.__name__).reduce(arrays, axis=axis)
        if axis != 0:
            raise Unsupported(f"np.{self.__name__}.reduce along axis {axis}")
        acc = None
        for a in arrays:
            acc = a if acc is None else self._op(asarray(acc), a)
        return self._unit if acc is None else acc


logical_or = _LogicalUfunc("logical_or", lambda a, b: a | b, _np.False_)
logical_and = _LogicalUfunc("logical_and", lambda a, b: a & b, _np.True_)


def absolute(x, **k):
    if isinstance(x, SA):
        return _map(lambda v: abs(Sc.of(v)), x)
    if isinstance(x, Sc):
        return abs(x)
    return _np.absolute(x)


def sqrt(x, **k):
    if isinstance(x, SA):
        return _map(lambda v: Sc.of(v).sqrt(), x)
    if isinstance(x, Sc):
        return x.sqrt()
    return _np.sqrt(x)


def square(x):
    return x * x


def conj(x):
    if isinstance(x, (SA, Sc)):
        return x.conjugate()
    return _np.conj(x)


def real(x):
    if isinstance(x, (SA, Sc)):
        return x.real
    return _np.real(x)


def imag(x):
    if isinstance(x, (SA, Sc)):
        return x.imag
    return _np.imag(x)


def clip(x, lo, hi, **k):
    if not has_sym([x, lo, hi]):
        return _np.clip(x, lo, hi)
    if isinstance(x, SA):
        return _map(lambda v: clip(v, lo, hi), x)
    x, lo, hi = Sc.of(x), Sc.of(lo), Sc.of(hi)
    # numpy semantics: minimum(maximum(x, lo), hi)
    return Sc(simp(z3.If(z3.If(x.re < lo.re, lo.re, x.re) > hi.re, hi.re, z3.If(x.re < lo.re, lo.re, x.re))))


def maximum(a, b, out=None, **k):
    if not has_sym([a, b]):
        return _np.maximum(a, b, out=out)
    if isinstance(a, SA) or isinstance(b, SA):
        if isinstance(a, SA) and isinstance(b, SA):
            r = _map2(_max2, a, b)
        elif isinstance(a, SA):
            r = _map(lambda v: _max2(v, b), a)
        else:
            r = _map(lambda v: _max2(a, v), b)
    else:
        r = _max2(a, b)
    if out is not None:
        if not isinstance(out, SA):
            raise Unsupported("maximum(out=) into a concrete array with symbolic values")
        out.data[...] = r.data
        return out
    return r


def minimum(a, b, out=None, **k):
    if not has_sym([a, b]):
        return _np.minimum(a, b, out=out)
    if isinstance(a, SA) and isinstance(b, SA):
        r = _map2(_min2, a, b)
    elif isinstance(a, SA):
        r = _map(lambda v: _min2(v, b), a)
    elif isinstance(b, SA):
        r = _map(lambda v: _min2(a, v), b)
    else:
        r = _min2(a, b)
    return r


def bincount(idx, weights=None, minlength=0):
    if weights is None or not has_sym(weights):
        return _np.bincount(idx, weights=weights, minlength=minlength)
    idx = _np.asarray(idx)
    n = max(int(idx.max()) + 1 if idx.size else 0, minlength)
    out = _np.full(n, 0.0, dtype=object)
    for i, w in zip(idx, _obj(weights)):
        out[i] = out[i] + w
    return SA(out)


def allclose(a, b, rtol=1e-05, atol=1e-08, **k):
    if not has_sym([a, b]):
        return _np.allclose(a, b, rtol=rtol, atol=atol)
    aa, ba = asarray(a), asarray(b)
    if isinstance(aa, SA) and isinstance(ba, SA) and aa.shape == ba.shape:
        # structurally identical terms are equal (no query needed; numpy would compare equal floats)
        fa, fb = aa.data.ravel(), ba.data.ravel()
        if all(isinstance(x, Sc) and isinstance(y, Sc) and (x is y or (str(x.re) == str(y.re) and str(x.im) == str(y.im))) for x, y in zip(fa, fb)):
            return True
    d = absolute(aa - ba)
    bound = atol + rtol * absolute(ba)
    return all_(d <= bound)


def isclose(a, b, rtol=1e-05, atol=1e-08, **k):
    if not has_sym([a, b]):
        return _np.isclose(a, b, rtol=rtol, atol=atol)
    if isinstance(a, SA) or isinstance(b, SA):
        return absolute(asarray(a) - asarray(b)) <= atol + rtol * absolute(asarray(b))
    a, b = Sc.of(a), Sc.of(b)
    return abs(a - b) <= atol + rtol * abs(b)


def array_equal(a, b, **k):
    if not has_sym([a, b]):
        return _np.array_equal(a, b)
    if _np.shape(_d(a)) != _np.shape(_d(b)):
        return False
    return all_(asarray(a) == asarray(b))


def where(cond, a=None, b=None):
    if a is None:
        if has_sym(cond):
            raise Unsupported("np.where(cond) with symbolic condition")
        return _np.where(cond)
    if not has_sym([cond, a, b]):
        return _np.where(cond, a, b)

    def ite(c, x, y):
        if isinstance(c, (bool, _np.bool_)):
            return x if c else y
        c = SymBool.of(c)
        x, y = Sc.of(x), Sc.of(y)
        return Sc(simp(z3.If(c.e, x.re, y.re)), simp(z3.If(c.e, x.im, y.im)))

    ca, aa, ba = _np.broadcast_arrays(_obj(cond), _obj(a), _obj(b))
    return SA(_np.frompyfunc(ite, 3, 1)(ca, aa, ba))


def atleast_1d(*arys):
    res = []
    for a in arys:
        if isinstance(a, SA):
            res.append(a if a.ndim >= 1 else SA(a.data.reshape(1)))
        elif isinstance(a, Sc):
            res.append(SA(_np.array([a], dtype=object)))
        else:
            res.append(_np.atleast_1d(a))
    return res[0] if len(res) == 1 else res


def atleast_2d(*arys):
    res = []
    for a in arys:
        if isinstance(a, SA):
            res.append(a if a.ndim >= 2 else SA(_np.atleast_2d(a.data)))
        else:
            res.append(_np.atleast_2d(a))
    return res[0] if len(res) == 1 else res


def squeeze(a, axis=None):
    if isinstance(a, SA):
        return a.squeeze(axis=axis)
    if isinstance(a, Sc):
        return a
    return _np.squeeze(a, axis=axis)


def diff(a, n=1, axis=-1):
    if not has_sym(a):
        return _np.diff(a, n=n, axis=axis)
    data = _obj(a)
    sl1 = [slice(None)] * data.ndim
    sl2 = [slice(None)] * data.ndim
    sl1[axis] = slice(1, None)
    sl2[axis] = slice(None, -1)
    return SA(data[tuple(sl1)]) - SA(data[tuple(sl2)])


def cumsum(a, axis=None):
    if not has_sym(a):
        return _np.cumsum(a, axis=axis)
    data = _obj(a).ravel() if axis is None else _obj(a)
    if data.ndim != 1:
        raise Unsupported("cumsum on nd symbolic arrays")
    out = _np.empty(len(data), dtype=object)
    acc = Sc(ZERO)
    for i, v in enumerate(data):
        acc = acc + v
        out[i] = acc
    return SA(out)


def dot(a, b):
    if not has_sym([a, b]):
        return _np.dot(a, b)
    return matmul(a, b)


def matmul(a, b):
    if isinstance(a, SM):
        return a @ b
    A, B = _obj(a), _obj(b)
    A = _np.frompyfunc(_sc, 1, 1)(A)
    B = _np.frompyfunc(_sc, 1, 1)(B)
    return _wrap(_np.dot(A, B))


def void(x):
    if hasattr(x, "sym_value"):
        x = x.sym_value()
    return _np.void(x)


def isfinite(x):
    if not has_sym(x):
        return _np.isfinite(x)
    if isinstance(x, SA):
        return _np.ones(x.shape, dtype=bool)
    return True


def isnan(x):
    if not has_sym(x):
        return _np.isnan(x)
    if isinstance(x, SA):
        return _np.zeros(x.shape, dtype=bool)
    return False


def ptp(a, axis=None):
    return max_(a, axis=axis) - min_(a, axis=axis)


def shape(a):
    return _np.shape(_d(a))


def ndim(a):
    return _np.ndim(_d(a))


def size(a):
    return _np.size(_d(a))


def isscalar(x):
    if isinstance(x, Sc):
        return True
    return _np.isscalar(x)


def ascontiguousarray(x, dtype=None):
    if isinstance(x, SA):
        return x
    return _np.ascontiguousarray(x, dtype=dtype)


def angle(x):
    """Phase angle: uninterpreted (only used for probe read-out; never compared)."""
    from .core import opaque_fn

    if isinstance(x, SA):
        return _map(lambda v: opaque_fn("atan2", Sc.of(v).imag, Sc.of(v).real), x)
    if isinstance(x, Sc):
        return opaque_fn("atan2", x.imag, x.real)
    return _np.angle(x)


def average(a, axis=None, weights=None):
    if not has_sym([a, weights]):
        return _np.average(a, axis=axis, weights=weights)
    if weights is None:
        return mean(a, axis=axis)
    raise Unsupported("weighted average of symbolic arrays")


def linspace(*a, **k):
    return _np.linspace(*a, **k)


class _Linalg:
    @staticmethod
    def norm(x, axis=None, **k):
        if not has_sym(x):
            return _np.linalg.norm(x, axis=axis, **k)
        sq = _map(lambda v: (lambda s: s.re * s.re + s.im * s.im if not is_zero(s.im) else s.re * s.re)(Sc.of(v)), x)
        sq = _map(lambda v: Sc(simp(v)) if isinstance(v, z3.ExprRef) else v, sq)
        tot = sum_(sq, axis=axis)
        if isinstance(tot, SA):
            return _map(lambda v: Sc.of(v).sqrt(), tot)
        return tot.sqrt()

    @staticmethod
    def det(m):
        if not has_sym(m):
            return _np.linalg.det(m)
        d = _obj(m)
        if d.shape == (2, 2):
            return _sc(d[0, 0]) * d[1, 1] - _sc(d[0, 1]) * d[1, 0]
        if d.ndim == 3 and d.shape[1:] == (2, 2):  # stack of 2x2 matrices
            out = _np.empty(d.shape[0], dtype=object)
            for k in range(d.shape[0]):
                out[k] = _sc(d[k, 0, 0]) * d[k, 1, 1] - _sc(d[k, 0, 1]) * d[k, 1, 0]
            return SA(out)
        raise Unsupported("det of symbolic matrix larger than 2x2")

    def __getattr__(self, name):
        real_f = getattr(_np.linalg, name)

        def guarded(*a, **k):
            if has_sym(a) or has_sym(list(k.values())):
                raise Unsupported(f"np.linalg.{name} on symbolic arguments")
            return real_f(*a, **k)

        return guarded


class _NDMeta(type):
    def __instancecheck__(cls, x):
        return isinstance(x, (SA, _np.ndarray))


class FakeNDArray(metaclass=_NDMeta):
    """stands for np.ndarray in isinstance checks of patched modules"""


SHIMS = dict(
    concatenate=concatenate,
    stack=stack,
    exp=exp,
    einsum=einsum,
    asarray=asarray,
    array=array,
    zeros=zeros,
    ones=ones,
    full=full,
    full_like=full_like,
    radians=radians,
    deg2rad=radians,
    cos=cos,
    sin=sin,
    diag=diag,
    empty=empty,
    zeros_like=zeros_like,
    ones_like=ones_like,
    empty_like=empty_like,
    absolute=absolute,
    abs=absolute,
    sqrt=sqrt,
    square=square,
    conj=conj,
    conjugate=conj,
    real=real,
    imag=imag,
    clip=clip,
    maximum=maximum,
    minimum=minimum,
    bincount=bincount,
    allclose=allclose,
    isclose=isclose,
    array_equal=array_equal,
    where=where,
    atleast_1d=atleast_1d,
    atleast_2d=atleast_2d,
    squeeze=squeeze,
    diff=diff,
    cumsum=cumsum,
    dot=dot,
    outer=outer,
    logical_or=logical_or,
    logical_and=logical_and,
    matmul=matmul,
    isfinite=isfinite,
    void=void,
    isnan=isnan,
    ptp=ptp,
    shape=shape,
    ndim=ndim,
    size=size,
    isscalar=isscalar,
    ascontiguousarray=ascontiguousarray,
    angle=angle,
    average=average,
    any=any_,
    all=all_,
    sum=sum_,
    max=max_,
    amax=max_,
    min=min_,
    amin=min_,
    mean=mean,
    ndarray=FakeNDArray,
    linalg=_Linalg(),
)


class NPFacade(types.ModuleType):
    """Stands for `numpy` in a patched module: concrete arguments -> real numpy, symbolic
    arguments -> shim if whitelisted, else Unsupported (never a silent wrong model)."""

    def __init__(self, extra=None):
        super().__init__("symx_np")
        self._extra = dict(extra or {})
        self.used = set()

    def __reduce__(self):
        # cloudpickle serialises functions together with the module globals they reference: the
        # facade stands for numpy, so it pickles as a reference to numpy
        import importlib

        return (importlib.import_module, ("numpy",))

    def __getattr__(self, name):
        if name.startswith("__"):
            raise AttributeError(name)
        self.used.add(name)
        if name in self._extra:
            return self._extra[name]
        if name in SHIMS:
            f = SHIMS[name]
            if isinstance(f, _LogicalUfunc):
                return f
            if callable(f) and not isinstance(f, type) and hasattr(_np, name) and not CTX.trace_calls:
                real_f = getattr(_np, name)

                def quantity_aware(*a, _f=f, _r=real_f, **k):
                    # pint quantities implement the numpy protocols themselves: hand them to real
                    # numpy, which unwraps the magnitudes (possibly symbolic arrays) and re-dispatches
                    if any(_is_quantity(x) or (isinstance(x, (list, tuple)) and any(_is_quantity(e) for e in x)) for x in a):
                        return _r(*a, **k)
                    return _f(*a, **k)

                return quantity_aware
            if CTX.trace_calls and callable(f) and not isinstance(f, type):
                def traced(*a, _f=f, _n=name, **k):
                    CTX.calls.append((_n, a))
                    return _f(*a, **k)

                return traced
            return f
        real_obj = getattr(_np, name)
        if callable(real_obj) and not isinstance(real_obj, type):

            def guarded(*a, **k):
                a = tuple(float if getattr(x, "_is_sym_float", False) else x for x in a)
                k = {kk: (float if getattr(vv, "_is_sym_float", False) else vv) for kk, vv in k.items()}
                if has_sym(a) or has_sym(list(k.values())):
                    raise Unsupported(f"np.{name} on symbolic arguments")
                return real_obj(*a, **k)

            guarded.__name__ = name
            return guarded
        return real_obj


# --------------------------------------------------------------------------------------
# sparse model
class SM:
    """Dense dict-of-entries model of a scipy sparse array that keeps the structural pattern:
    entries[(i, j)] present <=> structurally stored (explicit zeros stay structural)."""

    def __init__(self, shape, entries=None, fmt="csr", kind=None):
        self.shape = tuple(shape)
        self.entries = dict(entries or {})
        self.format = fmt
        # dtype is fixed at construction (scipy semantics); 'c' complex or 'f' real
        self.kind = kind if kind is not None else ("c" if any(kind_of(v) == "c" for v in self.entries.values()) else "f")

    @property
    def dtype(self):
        return _np.dtype(complex if self.kind == "c" else float)

    @property
    def nnz(self):
        return len(self.entries)

    @property
    def ndim(self):
        return 2

    def copy(self):
        return SM(self.shape, self.entries, self.format, self.kind)

    def get(self, i, j):
        return self.entries.get((i, j), 0.0)

    # lil-format views (row-wise lists, columns ascending), as scipy's lil_array exposes them
    @property
    def rows(self):
        out = _np.empty(self.shape[0], dtype=object)
        for i in range(self.shape[0]):
            out[i] = sorted(j for (r, j) in self.entries if r == i)
        return out

    @property
    def data(self):
        if self.format in ("csr", "csc"):
            return self._compressed()[0]
        out = _np.empty(self.shape[0], dtype=object)
        for i in range(self.shape[0]):
            out[i] = [self.entries[(i, j)] for j in sorted(j for (r, j) in self.entries if r == i)]
        return out

    # compressed-format views (csr: row-major, csc: column-major; minor indices ascending), as scipy exposes them
    def _compressed(self):
        major = 0 if self.format == "csr" else 1
        keys = sorted(self.entries, key=lambda k: (k[major], k[1 - major]))
        data = SA(_np.array([self.entries[k] for k in keys] + [None], dtype=object)[:-1], self.kind)
        indices = _np.array([k[1 - major] for k in keys], dtype=_np.int32)
        indptr = _np.zeros(self.shape[major] + 1, dtype=_np.int32)
        for k in keys:
            indptr[k[major] + 1] += 1
        return data, indices, _np.cumsum(indptr).astype(_np.int32)

    @property
    def indices(self):
        if self.format not in ("csr", "csc"):
            raise AttributeError("indices")
        return self._compressed()[1]

    @property
    def indptr(self):
        if self.format not in ("csr", "csc"):
            raise AttributeError("indptr")
        return self._compressed()[2]

    def pattern(self):
        return sorted(self.entries)

    def __matmul__(self, v):
        if isinstance(v, SM):
            out = {}
            for (i, k), a in self.entries.items():
                for (k2, j), b in v.entries.items():
                    if k == k2:
                        t = _sc(a) * b
                        out[(i, j)] = out[(i, j)] + t if (i, j) in out else t
            return SM((self.shape[0], v.shape[1]), out)
        vd = _obj(v)
        if vd.shape[0] != self.shape[1]:
            raise ValueError(f"dimension mismatch {self.shape} @ {vd.shape}")
        rows = {}
        for (i, j), e in self.entries.items():
            rows.setdefault(i, []).append((j, e))
        out = _np.empty((self.shape[0],) + vd.shape[1:], dtype=object)
        for i in range(self.shape[0]):
            if vd.ndim == 1:
                acc = Sc(ZERO)
                for j, e in sorted(rows.get(i, [])):
                    acc = acc + _sc(e) * vd[j]
                out[i] = acc
            else:
                for c in range(vd.shape[1]):
                    acc = Sc(ZERO)
                    for j, e in sorted(rows.get(i, [])):
                        acc = acc + _sc(e) * vd[j, c]
                    out[i, c] = acc
        return SA(out)

    def dot(self, v):
        return self @ v

    def tolil(self, copy=False):
        return SM(self.shape, self.entries, "lil", self.kind)

    def tocsr(self, copy=False):
        if not copy and self.format == "csr":
            return self
        m = SM(self.shape, self.entries, "csr", self.kind)
        return m

    def tocsc(self, copy=False):
        return SM(self.shape, self.entries, "csc", self.kind)

    def toarray(self):
        out = _np.full(self.shape, 0.0, dtype=object)
        for (i, j), e in self.entries.items():
            out[i, j] = e
        return SA(out)

    def __getitem__(self, key):
        i, j = key
        if isinstance(i, (int, _np.integer)) and isinstance(j, (int, _np.integer)):
            return self.get(int(i), int(j))
        raise Unsupported("sparse slicing")

    def __setitem__(self, key, val):
        rows, cols = key
        if isinstance(cols, slice):
            if cols != slice(None):
                raise Unsupported("sparse column slices")
            if has_sym(val) or val != 0:
                raise Unsupported("sparse row assignment of non-zero")
            # scipy lil: assigning 0 to whole rows removes their stored entries
            for r in _np.atleast_1d(rows):
                for k in [k for k in self.entries if k[0] == int(r)]:
                    del self.entries[k]
            return
        rows = _np.atleast_1d(rows)
        cols = _np.atleast_1d(cols)
        vals = _obj(val)
        if vals.ndim == 0:
            vals = _np.full(len(rows), vals[()], dtype=object)
        if not (len(rows) == len(cols) == len(vals)):
            raise ValueError("shape mismatch in sparse fancy assignment")
        # scipy semantics: later duplicates overwrite earlier ones; new entries are inserted
        cast_real = self.kind == "f" and (kind_of(val) == "c")
        for r, c, v in zip(rows, cols, vals):
            r, c = int(r), int(c)
            if r < 0:
                r += self.shape[0]
            if c < 0:
                c += self.shape[1]
            if cast_real:
                # scipy casts the assigned values to the matrix dtype: a real matrix silently
                # drops the imaginary part (ComplexWarning only)
                v = _sc(v).real if isinstance(v, Sc) else complex(v).real
            self.entries[(r, c)] = v


def _coo(arg1, shape=None, fmt="csr", **k):
    if isinstance(arg1, SM):
        return SM(arg1.shape, arg1.entries, fmt, arg1.kind)
    if isinstance(arg1, tuple) and len(arg1) == 3:
        # (data, indices, indptr): compressed rows (csr) or columns (csc)
        data, indices, indptr = arg1
        vals = _obj(data)
        indices, indptr = _np.asarray(indices), _np.asarray(indptr)
        if shape is None:
            raise Unsupported("compressed sparse constructor without shape")
        entries = {}
        for major in range(len(indptr) - 1):
            for p in range(int(indptr[major]), int(indptr[major + 1])):
                key = (major, int(indices[p])) if fmt == "csr" else (int(indices[p]), major)
                entries[key] = (entries[key] + vals[p]) if key in entries else vals[p]
        return SM(shape, entries, fmt, "c" if kind_of(data) == "c" else "f")
    values, (rows, cols) = arg1
    vkind = kind_of(values)
    vals = _obj(values)
    rows = _np.asarray(rows)
    cols = _np.asarray(cols)
    if shape is None:
        shape = (int(rows.max()) + 1, int(cols.max()) + 1)
    entries = {}
    for v, r, c in zip(vals, rows, cols):
        key = (int(r), int(c))
        # duplicates are summed on construction
        entries[key] = (entries[key] + v) if key in entries else v
    return SM(shape, entries, fmt, "c" if vkind == "c" else "f")




class _SPLinalg:
    def use_solver(self, **k):
        pass

    def factorized(self, M):
        """Contract stub of an LU solve: returns fresh x with M @ x == rhs (path assumption)
        and rhs == 0  =>  x == 0 (triangular solves map the zero vector to the zero vector)."""
        if not isinstance(M, SM):
            import scipy.sparse.linalg as _spl

            return _spl.factorized(M)

        def solve(rhs):
            n = M.shape[1]
            rd0 = _obj(rhs)
            if all((not isinstance(r, Sc) and r == 0) or (isinstance(r, Sc) and is_zero(r.re) and is_zero(r.im)) for r in rd0):
                # zero right-hand side: the triangular solves return the zero vector
                return SA(_np.full(n, 0.0, dtype=object))
            k = len(CTX.lu_log)
            xs = [z3.Real(f"lu{k}_{i}") for i in range(n)]
            x = SA(_np.array([Sc(v) for v in xs], dtype=object))
            lhs = M @ x
            rd = _obj(rhs)
            eqs = []
            for l, r in zip(lhs.data, rd):
                r = Sc.of(r)
                eqs.append(simp(l.re == r.re))
            zero_rhs = z3.And(*[Sc.of(r).re == 0 for r in rd])
            zero_clause = z3.Implies(zero_rhs, z3.And(*[v == 0 for v in xs]))
            for e in eqs:
                CTX.add_path_assume(e)
            CTX.add_path_assume(z3.simplify(zero_clause))
            CTX.lu_log.append(dict(matrix=M, rhs=rhs, x=x, eqs=eqs))
            CTX.lu_contracts.append(eqs)
            return x

        return solve


class SPFacade(types.ModuleType):
    def __init__(self):
        super().__init__("symx_sp")
        self.linalg = _SPLinalg()

    def __reduce__(self):
        import importlib

        return (importlib.import_module, ("scipy.sparse",))

    @staticmethod
    def csr_array(arg1, shape=None, **k):
        return _coo(arg1, shape, "csr")

    @staticmethod
    def csc_array(arg1, shape=None, **k):
        return _coo(arg1, shape, "csc")

    @staticmethod
    def csr_matrix(arg1, shape=None, **k):
        return _coo(arg1, shape, "csr")

    @staticmethod
    def csc_matrix(arg1, shape=None, **k):
        return _coo(arg1, shape, "csc")

    @staticmethod
    def issparse(m):
        import scipy.sparse as _sp

        return isinstance(m, SM) or _sp.issparse(m)

    class SparseEfficiencyWarning(Warning):
        pass

    spmatrix = SM

    @staticmethod
    def find(m):
        if isinstance(m, SM):
            ks = sorted(m.entries, key=lambda k: (k[1], k[0]))
            vals = [m.entries[k] for k in ks]
            if has_sym(vals):
                raise Unsupported("sp.find on a matrix with symbolic values")
            return (_np.array([k[0] for k in ks], dtype=_np.int64), _np.array([k[1] for k in ks], dtype=_np.int64), _np.array(vals))
        import scipy.sparse as _sp

        return _sp.find(m)

    def __getattr__(self, name):
        if name.startswith("__"):
            raise AttributeError(name)
        import scipy.sparse as _sp

        real_obj = getattr(_sp, name)
        if callable(real_obj) and not isinstance(real_obj, type):

            def guarded(*a, **k):
                if has_sym(a) or has_sym(list(k.values())):
                    raise Unsupported(f"sp.{name} on symbolic arguments")
                return real_obj(*a, **k)

            return guarded
        return real_obj
