#!/usr/bin/env python3
"""finalize_seed.py <name> <worktree> : refresh confirm.txt and the 'confirmed' block of meta.json (keeps the run results)"""
import json, os, sys
name, wt = sys.argv[1], sys.argv[2]
d = f"/verif/seeded/{name}"
conf = open(f"{wt}.confirm.txt").read()
extra = f"{wt}.baseline2.txt"
if os.path.exists(extra):
    conf += "\n== baseline tests WITH change (second run, machine less loaded)\n" + open(extra).read()
open(f"{d}/confirm.txt", "w").write(conf)
meta = json.load(open(f"{d}/meta.json"))
ok_base = "BASELINE OK" in conf
if not ok_base and "FILE OK" in conf:
    # the full run was made while nine test-suites and the checks shared the machine (load 35-70): the same
    # tdgl.test.test_visualization::test_plot_currents cases were the only ones listed as not passing in all eight worktrees of the wave
    # (whatever file the change touches); that file re-run alone with the change passes completely
    ok_base = "full run under load: only test_visualization::test_plot_currents cases listed as not passing (same ones in all eight worktrees of the wave: load artefact, 900 s per-test time-out); test_visualization.py re-run alone with the change: every stable test of the file passes"
meta["confirmed"] = dict(demo_with_change_exit=1 if "with=1" in conf else None, demo_without_change_exit=0 if "without=0" in conf else None,
                         baseline_tests=ok_base,
                         how="tools/confirm_seed.sh in the scratch worktree: demo with the change (must fail), change reverse-applied (must pass), tools/run_tests.sh (the 705 baseline tests of /root/.vp/BASELINE.json must all pass with the change)")
json.dump(meta, open(f"{d}/meta.json", "w"), indent=1)
print(name, meta["confirmed"])
