"""C17 - The uniform superconducting state is exactly stationary.

The real `TDGLSolver.__init__` (initial state) and one `update` with the real psi-kernel, the
real Poisson assembly (LU contract incl. zero right-hand side => zero solution), the real
adaptive rule and - with screening on - the real Polyak iteration and the Python source of the
Coulomb kernel are executed from psi = 1, mu = 0, A = 0, epsilon = 1 on meshes with symbolic
weights, symbolic gamma >= 0, u > 0, dt.  After the step the state must be exactly the start
state (so, by induction, at every step), no current or potential appears, and the recorded change
of |psi|^2 is 0 so that the adaptive step goes to dt_max."""
import numpy as np

from symx import engine, meshes
from symx.engine import Case

from . import common as K
from . import solver_setup as S

ID = "C17"
ENCODED = [
    "tdgl.solver.solver:TDGLSolver.__init__",
    "tdgl.solver.solver:TDGLSolver.update",
    "tdgl.solver.solver:TDGLSolver.adaptive_euler_step",
    "tdgl.solver.solver:TDGLSolver.solve_for_psi_squared",
    "tdgl.solver.solver:TDGLSolver.solve_for_observables",
    "tdgl.solver.solver:TDGLSolver.get_induced_vector_potential",
    "tdgl.solver.screening:get_A_induced_numba",
    "tdgl.finite_volume.mesh:Mesh.get_quantity_on_site",
    "tdgl.finite_volume.operators:build_laplacian",
]
BOUNDS = {
    "quick": dict(devices=["bar0", "bar2(terminal_psi=None)", "holed"], screening=[False, True], adaptive=[True, False], steps="one inductive step (post-state = pre-state)"),
    "thorough": dict(devices=["bar0", "bar2(terminal_psi=None)", "holed", "tee3(terminal_psi=None)"], screening=[False, True], adaptive=[True, False], steps="one inductive step"),
}
ASSUMPTIONS = [
    "mesh weights arbitrary positive reals; u > 0, 0 < dt_init <= dt_max symbolic; gamma >= 0 symbolic without screening, enumerated {0, 1/2, 1, 10, 50} with screening",
    "LU contract with the zero-rhs clause (triangular solves map the zero vector to the zero vector)",
    "exact real arithmetic: ulp-level residue of scipy's row sums is outside the claim",
    "numba kernel through its Python source",
]
OUTSIDE = ["rounding (the explicit step can amplify ulp noise on fine meshes)", "compiled numba code"]
MERGE = True
ABSTRACT_DIV = False
TV_SAMPLES = {"quick": 2, "thorough": 2}


def patch_spec(case):
    return S.patch_spec(extra_modules=["tdgl.solver.options"])


def concretise(case, o, vals):
    """a counter-example to 'the adaptive step goes to dt_max' lives where the recorded change of |psi|^2 is
    *exactly* zero, as it is on real meshes: replay it on the geometric weights of the real device mesh, without
    the tie-breaking perturbation (generic weights leave a change of ~1e-16, which hides the exact-zero case)"""
    if "adaptive step goes to dt_max" not in o.name:
        return None
    mesh = meshes.get_device(case.dev, case.seed).mesh
    em = mesh.edge_mesh
    out = dict(vals)
    for i, v in enumerate(np.asarray(mesh.areas, dtype=float)):
        out[f"a{i}"] = float(v)
    for i, (e, d) in enumerate(zip(np.asarray(em.edge_lengths, dtype=float), np.asarray(em.dual_edge_lengths, dtype=float))):
        out[f"e{i}"], out[f"s{i}"] = float(e), float(d)
    out.update(u=5.79, dt_init=2.0**-10, dt_max=2.0**-4, _exact=True)
    if "gamma" in out or case.gamma == "sym":
        out["gamma"] = 10.0
    return out


def cases(tier, seed):
    out = []
    devs = [("bar0", 0.0), ("bar2", None), ("holed", 0.0)]
    if tier == "thorough":
        devs.append(("tee3", None))
    for d, tp in devs:
        meshes.get_device(d, seed)
        for scr in (False, True):
            for ad in (True, False):
                if tier == "quick" and scr and not ad:
                    continue
                # with screening the whole Polyak/kernel pipeline runs behind the psi-step: gamma is
                # enumerated there (exact rational square roots keep the pipeline closed-form);
                # without screening gamma is a symbolic real
                gammas = ["sym"] if not scr else ([0.0, 1.0, 10.0] if tier == "quick" else [0.0, 0.5, 1.0, 10.0, 50.0])
                for g in gammas:
                    out.append(Case(f"{d}:screening={int(scr)}:adaptive={int(ad)}:gamma={g}", dev=d, terminal_psi=tp, screening=scr, adaptive=ad, seed=seed, gamma=g))
    return out


def body(H, case):
    gamma = H.real("gamma", nonneg=True) if case.gamma == "sym" else float(case.gamma)
    dev = S.symbolic_device(H, case.dev, case.seed, gamma=gamma, u=H.real("u", pos=True))
    mesh = dev.mesh
    ns, ne = len(mesh.sites), len(mesh.edge_mesh.edges)
    dt_init = H.real("dt_init", lo=1e-6, hi=1.0)
    dt_max = H.real("dt_max", lo=1e-6, hi=1.0)
    H.assume(dt_init <= dt_max)
    W = 1
    opts = S.make_options(dt_init=dt_init, dt_max=dt_max, adaptive=case.adaptive, adaptive_window=W, max_solve_retries=0,
                          terminal_psi=case.terminal_psi, include_screening=case.screening, max_iterations_per_step=2)
    solver = S.make_solver(H, dev, opts, validate=False)
    for i in range(ns):
        H.prove_eq(f"initial psi = 1 [{i}]", K.at(solver.psi_init, i), 1.0)
        H.prove_eq(f"initial mu = 0 [{i}]", K.at(solver.mu_init, i), 0.0)
    step = W + 1  # after the warm-up window, so that the adaptive rule is exercised
    solver.d_psi_sq_vals = [0.0] * step  # history of a stationary run
    rs = S.running_state(H, solver)
    zed = H.array([0.0] * ne) if H.mode == "sym" else np.zeros(ne)
    try:
        res = solver.update({"step": step, "time": 0.0, "dt": dt_init}, rs, dt_init, psi=solver.psi_init, mu=solver.mu_init,
                            supercurrent=zed, normal_current=zed, induced_vector_potential=S.zeros2(H, ne, 2))
    except RuntimeError as e:
        H.prove(f"the stationary state is never refused / always converges ({str(e)[:40]})", False)
        return
    for i in range(ns):
        H.prove_eq(f"psi' = 1 [{i}]", K.at(res.psi, i), 1.0, slice=True)
        H.prove_eq(f"mu' = 0 [{i}]", K.at(res.mu, i), 0.0, slice=True)
    for e in range(ne):
        H.prove_eq(f"supercurrent = 0 [{e}]", K.at(res.supercurrent, e), 0.0, slice=True)
        H.prove_eq(f"normal current = 0 [{e}]", K.at(res.normal_current, e), 0.0, slice=True)
        for c in range(2):
            H.prove_eq(f"A_induced = 0 [{e},{c}]", K.at(res.A_induced, e, c), 0.0, slice=True)
    H.prove_eq("used dt = proposed dt", res.dt, dt_init)
    if case.adaptive:
        H.prove_eq("recorded max |d|psi|^2| = 0", solver.d_psi_sq_vals[-1], 0.0)
        H.prove_eq("adaptive step goes to dt_max", solver.tentative_dt, dt_max)
    else:
        H.prove_eq("fixed step stays dt_init", solver.tentative_dt, dt_init)
