"""Build a real `TDGLSolver` (real constructor) on a tiny real device whose mesh weights are
harness inputs.  Used by the step-level harnesses (C01, C06, C10, C11, C12, C13, C17)."""
import numpy as np

from symx import engine, meshes

from . import common as K

SOLVER_MODULES = [
    "tdgl.solver.solver",
    "tdgl.finite_volume.operators",
    "tdgl.finite_volume.mesh",
    "tdgl.parameter",
    "tdgl.solver.runner",
]


class NullLogger:
    def info(self, *a, **k):
        pass

    warning = debug = error = info


def patch_spec(extra_modules=(), extra=None):
    spec = engine.std_patch(*SOLVER_MODULES, "tdgl.solver.screening", *extra_modules, extra=extra)
    spec["tdgl.solver.solver"]["logger"] = NullLogger()
    import tdgl.solver.screening as scr

    # the numba kernel is executed through its Python source (`.py_func`); the compiled LLVM
    # code is outside the claim
    spec["tdgl.solver.solver"]["get_A_induced_numba"] = scr.get_A_induced_numba.py_func
    return spec


def symbolic_device(H, kind, seed=0, symbolic_mesh=True, gamma=None, u=None, lengths=True, length_band=None):
    dev = meshes.get_device(kind, seed)
    if symbolic_mesh:
        meshes.symbolise(dev.mesh, H, lengths=lengths, length_band=length_band)
    if gamma is not None:
        dev.layer.gamma = gamma
    if u is not None:
        dev.layer.u = u
    return dev


class ScriptedPotential:
    """Time-dependent applied vector potential returning a scripted sequence of (n_edges, 3)
    arrays, one per evaluation (the solver evaluates it once in the constructor and once per
    update)."""

    def __init__(self, H, arrays):
        self.H = H
        self.arrays = list(arrays)
        self.calls = 0

    def make_parameter(self):
        import tdgl

        outer = self

        def scripted(x, y, z, *, t=0):
            k = min(outer.calls, len(outer.arrays) - 1)
            outer.calls += 1
            return outer.arrays[k]

        return tdgl.Parameter(scripted, time_dependent=True)


def make_options(**kw):
    import tdgl

    base = dict(solve_time=1.0, progress_interval=0, save_every=1)
    base.update(kw)
    opts = tdgl.SolverOptions(**base)
    return opts


def make_solver(H, dev, options, A=0.0, currents=None, epsilon=1.0, validate=True):
    """Real TDGLSolver constructor.  `options.validate` is kept real unless validate=False
    (symbolic option values that the validator would branch on are covered by C19)."""
    from tdgl.solver.solver import TDGLSolver

    if not validate:
        options.validate = lambda: None
    return TDGLSolver(dev, options, applied_vector_potential=A, terminal_currents=currents, disorder_epsilon=epsilon)


def running_state(H, solver, size=4):
    from tdgl.solver.runner import RunningState

    names = {"dt": 1}
    if solver.probe_points is not None:
        names["mu"] = len(solver.probe_points)
        names["theta"] = len(solver.probe_points)
    if solver.options.include_screening:
        names["screening_iterations"] = 1
    import tdgl.solver.runner as R

    # (the default array_module is bound at definition time; pass the module's current `np`)
    return RunningState(names, size, array_module=R.np)


def zeros2(H, n, m):
    if H.mode == "sym":
        return H.array2([[0.0] * m for _ in range(n)])
    return np.zeros((n, m))


def site_function(dev, values):
    """A user-style callable r -> value(r) defined on the mesh sites (non-vectorised epsilon)."""
    xi = dev.coherence_length.magnitude
    index = {(float(x), float(y)): i for i, (x, y) in enumerate(xi * dev.mesh.sites)}

    def f(r):
        return K.at(values, index[(float(r[0]), float(r[1]))])

    return f
