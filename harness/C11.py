"""C11 - The trajectory depends only on the physics and can be resumed.

(A) the real `Runner` is executed twice on the same opaque, deterministic physics (next state =
uninterpreted F(state), symbolic step sizes) under two different recording configurations (save
interval, probes present/absent, progress interval, output path vs. temp dir): the sequence of
arguments handed to the update function is identical, and frames with equal step labels are
identical.  (B) the real `TDGLSolver.update` gives term-identical results with and without
probe points.  (C) resuming: the real `TDGLSolver.solve` hands exactly the seed solution's psi,
mu, currents and induced vector potential to the first update; a run split into T1 + T2 through
the recorded final frame feeds the update function the tail of the uninterrupted run."""
import numpy as np

from symx import core, engine, fakeh5, meshes
from symx.core import CTX, Sc
from symx.engine import Case

from . import common as K
from . import solver_setup as S

ID = "C11"
ENCODED = [
    "tdgl.solver.runner:Runner.run",
    "tdgl.solver.runner:Runner._run_stage",
    "tdgl.solver.runner:DataHandler.save_time_step",
    "tdgl.solver.solver:TDGLSolver.update",
    "tdgl.solver.solver:TDGLSolver.solve",
]
BOUNDS = {
    "quick": dict(max_steps=3, configurations="(k, probes, progress_interval, output) pairs with k in 1..5"),
    "thorough": dict(max_steps=5, configurations="(k, probes, progress_interval, output) pairs with k in 1..7"),
}
ASSUMPTIONS = [
    "physics opaque and deterministic: next state = F(state) for an uninterpreted F, step sizes symbolic in [1/2,1] (same in both runs)",
    "static drive for the resume clause (recorded time restarts from 0 in the resumed run)",
    "HDF5 / file system in-memory; bit-fidelity of HDF5 itself is C14's subject",
]
OUTSIDE = ["HDF5 bit-fidelity (C14)", "compiled kernels", "time-dependent drives across a resume"]
TV_SAMPLES = {"quick": 1, "thorough": 1}
MAX_PATHS = {"quick": 4000, "thorough": 40000}
PHASE_AXIOMS = True  # equal link phases give equal link variables (the resumed-operators case compares unit pairs)


def patch_spec(case):
    fs = fakeh5.FakeFS()
    fs.dirs.add("/work")
    case.params["_fs"] = fs
    spec = S.patch_spec(extra_modules=["tdgl.solution.data", "tdgl.solution.solution"])
    h5 = fakeh5.FakeH5py(fs)
    fos = fakeh5.FakeOs(fs)
    import time as _time
    from types import SimpleNamespace

    spec["tdgl.solver.runner"].update(h5py=h5, tempfile=fakeh5.FakeTempfile(fs), os=fos, tqdm=fakeh5.FakeTqdm, datetime=fakeh5.FakeDatetime,
                                      Path=fakeh5.make_path_class(fs), time=SimpleNamespace(perf_counter=_Clock()))
    spec["tdgl.solver.solver"].update(datetime=fakeh5.FakeDatetime, os=fos)
    spec["tdgl.solution.solution"].update(h5py=h5, os=fos, datetime=fakeh5.FakeDatetime)
    spec["tdgl.solution.data"].update(h5py=h5)
    return spec


class _Clock:
    """wall clock stub: strictly increasing"""

    def __init__(self):
        self.t = 0.0

    def __call__(self):
        self.t += 1.0
        return self.t


def cases(tier, seed):
    N = BOUNDS[tier]["max_steps"]
    meshes.get_device("bar2", seed)
    meshes.get_device("bar2p", seed)
    meshes.get_device("bar0", seed)
    out = []
    configs = [dict(k=1, probes=0, prog=0, explicit=False), dict(k=2, probes=2, prog=0, explicit=True), dict(k=N + 2, probes=0, prog=2, explicit=True),
               dict(k=3, probes=3, prog=1, explicit=False)]
    for i in range(len(configs)):
        for j in range(i + 1, len(configs)):
            out.append(Case(f"observer:runner:{i}v{j}", kind="runner", N=N, A=configs[i], B=configs[j], seed=seed))
    out.append(Case("observer:update:probes", kind="update", seed=seed))
    for scr in (False, True):
        out.append(Case(f"resume:seed:screening={int(scr)}", kind="seed", screening=scr, seed=seed))
    for n1 in range(1, N):
        out.append(Case(f"resume:split:{n1}+{N - n1}", kind="split", N=N, n1=n1, seed=seed))
    out.append(Case("resume:operators:screening", kind="resume_ops", seed=seed))
    return out


def F(H, v):
    """deterministic opaque physics"""
    if H.mode == "sym":
        return core.opaque_fn("F", v)
    return float(np.sin(3.0 * v) + 0.5 * v + 0.25)


def run_runner(H, case, cfg, N, T, dts, v0, tag, fs):
    import tdgl.solver.runner as R
    from tdgl.solver.options import SolverOptions

    if H.mode == "sym":
        CTX.opaque_eval["F"] = lambda v: float(np.sin(3.0 * v) + 0.5 * v + 0.25)
    calls = []
    P = cfg["probes"]

    def update(state, running_state, dt, *, v):
        i = len(calls)
        if i > N + 1:
            raise core.UnwindBound("too many updates")
        calls.append((state["step"], state["time"], dt, K.at(v, 0)))
        running_state.append("dt", dts[i])
        if P:
            pv = [K.at(v, 0)] * P
            running_state.append("mu", H.array(pv) if H.mode == "sym" else np.array(pv))
        nv = F(H, K.at(v, 0))
        return (dts[i], H.array([nv]) if H.mode == "sym" else np.array([nv]))

    names = {"dt": 1}
    if P:
        names["mu"] = P
    out = None
    if cfg["explicit"]:
        import os
        import tempfile

        out = "/work/" + tag + ".h5" if H.mode == "sym" else os.path.join(tempfile.mkdtemp(prefix="c11-"), tag + ".h5")
    opts = SolverOptions(solve_time=T, dt_init=dts[0], save_every=cfg["k"], progress_interval=cfg["prog"])
    frames = {}
    with R.DataHandler(output_file=out, logger=S.NullLogger()) as dh:
        runner = R.Runner(function=update, options=opts, data_handler=dh, initial_values=[H.array([v0]) if H.mode == "sym" else np.array([v0])],
                          names=["v"], running_names_and_sizes=names, logger=S.NullLogger())
        runner.run()
        f = dh.output_file
        for key in f["data"]:
            g = f["data"][key]
            val = g["v"][()] if H.mode == "sym" else np.array(g["v"])
            frames[int(g.attrs["step"])] = (g.attrs["time"], K.at(val, 0))
    return calls, frames


def body(H, case):
    fs = case.params.get("_fs")
    if H.mode == "sym":
        fs.files.clear(); fs.dirs.clear(); fs.dirs.add("/work"); fs.open_handles.clear(); fs.log.clear(); fs.tmp_counter = 0
    return globals()["body_" + case.kind](H, case, fs)


def body_runner(H, case, fs):
    N = case.N
    T = H.real("T", lo=0.0, hi=N / 2, lo_open=True)
    dts = [H.real(f"dt{i}", lo=0.5, hi=1.0) for i in range(N + 3)]
    v0 = H.real("v0", lo=-1.0, hi=1.0)
    cA, fA = run_runner(H, case, case.A, N, T, dts, v0, "A", fs)
    cB, fB = run_runner(H, case, case.B, N, T, dts, v0, "B", fs)
    H.prove("both configurations make the same number of updates", len(cA) == len(cB))
    for i, (a, b) in enumerate(zip(cA, cB)):
        H.prove(f"update {i}: same step index", a[0] == b[0])
        H.prove_eq(f"update {i}: same time", a[1], b[1])
        H.prove_eq(f"update {i}: same dt argument", a[2], b[2])
        H.prove_eq(f"update {i}: same state", a[3], b[3])
    for s in sorted(set(fA) & set(fB)):
        H.prove_eq(f"frame step {s}: same time under both configurations", fA[s][0], fB[s][0])
        H.prove_eq(f"frame step {s}: same state under both configurations", fA[s][1], fB[s][1])
    H.prove("both runs record frame 0 and the same final step", 0 in fA and 0 in fB and max(fA) == max(fB))


def body_update(H, case, fs):
    """probe read-out only appends to the running-state buffer"""
    res = []
    for kind in ("bar2", "bar2p"):
        dev = S.symbolic_device(H, kind, case.seed)
        ns, ne = len(dev.mesh.sites), len(dev.mesh.edge_mesh.edges)
        dt = H.real("dt", lo=0.001, hi=0.1)
        opts = S.make_options(dt_init=dt, dt_max=dt, adaptive=False)
        solver = S.make_solver(H, dev, opts, validate=False)
        psi_new = H.cplxs("q", ns)
        mu_new = H.reals("w", ns)
        js = H.reals("js", ne)
        solver.adaptive_euler_step = lambda step, psi, abs_sq_psi, mu, epsilon, dt_: (psi_new, abs_sq_psi, dt_)
        solver.solve_for_observables = lambda p, dA_dt: (mu_new, js, js)
        rs = S.running_state(H, solver)
        psi0, mu0 = H.cplxs("p", ns), H.reals("m", ns)
        zed = H.array([0.0] * ne) if H.mode == "sym" else np.zeros(ne)
        r = solver.update({"step": 1, "time": dt, "dt": dt}, rs, dt, psi=psi0, mu=mu0, supercurrent=zed, normal_current=zed,
                          induced_vector_potential=S.zeros2(H, ne, 2))
        res.append((r, rs, solver))
    (a, rsa, sa), (b, rsb, sb) = res
    H.prove("the second device has probe points, the first has none", sa.probe_points is None and sb.probe_points is not None)
    H.prove_eq("dt identical with and without probes", a.dt, b.dt)
    for nm in ("psi", "mu", "supercurrent", "normal_current"):
        H.prove_conj_eq(f"{nm} identical with and without probes", list(zip(K.elems(getattr(a, nm)), K.elems(getattr(b, nm)))))
    H.prove("probe read-out is recorded only when probes exist", "mu" in rsb.values and "mu" not in rsa.values)


def body_seed(H, case, fs):
    from types import SimpleNamespace

    dev = S.symbolic_device(H, "bar0", case.seed, symbolic_mesh=False)
    ns, ne = len(dev.mesh.sites), len(dev.mesh.edge_mesh.edges)
    opts = S.make_options(solve_time=0.5, dt_init=1.0, dt_max=1.0, adaptive=False, include_screening=case.screening, output_file=None)
    solver = S.make_solver(H, dev, opts, validate=False)
    seed = SimpleNamespace(psi=H.cplxs("sp", ns), mu=H.reals("sm", ns), supercurrent=H.reals("sjs", ne), normal_current=H.reals("sjn", ne),
                           induced_vector_potential=H.reals2("sA", ne, 2), applied_vector_potential=None, epsilon=None)
    solver.seed_solution = SimpleNamespace(device=dev, tdgl_data=seed)
    got = {}

    class Stop(Exception):
        pass

    def update(state, running_state, dt, **kw):
        got.update(kw)
        raise Stop()

    solver.update = update
    try:
        solver.solve()
    except Stop:
        pass
    H.prove("the update function was reached", bool(got))
    for nm in ("psi", "mu", "supercurrent", "normal_current", "induced_vector_potential"):
        a, b = got.get(nm), getattr(seed, nm)
        H.prove(f"resumed run starts from the seed's {nm} (shape)", a is not None and np.shape(a.data if hasattr(a, "data") else a) == np.shape(b.data if hasattr(b, "data") else b))
        if a is not None:
            fa = a.ravel() if hasattr(a, "ravel") else a
            fb = b.ravel() if hasattr(b, "ravel") else b
            H.prove_conj_eq(f"resumed run starts from the seed's {nm}", list(zip(K.elems(fa), K.elems(fb))))


def body_resume_ops(H, case, fs):
    """what a step computes also depends on solver state that is not part of a seed: the covariant
    operators.  A solver resumed from the state (psi, mu, currents, A_induced) that an uninterrupted
    solver reached must use, in its first step, the operators the uninterrupted solver uses in its next
    step (real __init__ and update; the Euler step, Poisson solve and Polyak iteration are scripted)."""
    from .C10 import compare

    dev = S.symbolic_device(H, "bar2", case.seed)
    mesh = dev.mesh
    ns, ne = len(mesh.sites), len(mesh.edge_mesh.edges)
    opts = S.make_options(dt_init=0.01, dt_max=0.01, adaptive=False, include_screening=True, max_iterations_per_step=2, screening_tolerance=1e-3)
    import tdgl

    A2 = H.reals2("Aapp_", ne, 2, lo=-2.0, hi=2.0)
    z1 = S.zeros2(H, ne, 1)
    if H.mode == "sym":
        from symx.arr import concatenate

        A3 = concatenate([A2, z1], axis=1)
    else:
        A3 = np.concatenate([A2, z1], axis=1)
    A0 = tdgl.Parameter(lambda x, y, z: A3)  # a static applied vector potential with arbitrary values on the edges
    psi0, mu0 = H.cplxs("p", ns), H.reals("m", ns)

    class Snapshot:
        def __init__(self, mo):
            self.psi_gradient, self.psi_laplacian = mo.psi_gradient.copy(), mo.psi_laplacian.copy()

    def run(tag, induced_in, steps, errs, psi_in=None):
        """`steps` updates of a fresh solver; returns the operators at the first use of every update and
        the final induced potential"""
        solver = S.make_solver(H, dev, opts, A=A0, currents=None)
        first_use, first_args, state = {}, {}, dict(k=0, it=0, euler=0, induced=induced_in, psi=psi_in)

        def fake_euler(step, psi, abs_sq_psi, mu, epsilon, dt):
            first_use.setdefault(state["k"], Snapshot(solver.operators))
            first_args.setdefault(state["k"], (psi, abs_sq_psi))
            state["euler"] += 1
            # the Euler step answers with some new psi and some |psi|^2 (whatever the kernel computes: in
            # doubles its |psi|^2 is not bit-for-bit |new psi|^2, so the two are independent unknowns here)
            nm = f"{tag}_{state['k']}_{state['euler']}"
            return H.cplxs(f"pe_{nm}_", ns), H.reals(f"xe_{nm}_", ns, lo=0.0, hi=2.0), dt

        def fake_observables(psi, dA_dt):
            z = H.array([0.0] * ne) if H.mode == "sym" else np.zeros(ne)
            return mu0, z, z

        def fake_induced(current_density, A_induced_vals, velocity):
            state["it"] += 1
            newA = H.reals2(f"Aind_{state['k']}_{state['it']}_", ne, 2, lo=-1.0, hi=1.0) if tag == "uninterrupted" else None
            if newA is None:  # the resumed solver's iterates are not compared
                newA = H.reals2(f"Aind_resumed_{state['it']}_", ne, 2, lo=-1.0, hi=1.0)
            A_induced_vals.append(newA)
            state["induced"] = newA
            return newA, errs[min(state["it"] - 1, len(errs) - 1)]

        solver.adaptive_euler_step = fake_euler
        solver.solve_for_observables = fake_observables
        solver.get_induced_vector_potential = fake_induced
        rs = S.running_state(H, solver)
        for k in range(1, steps + 1):
            state["k"], state["it"], state["euler"] = k, 0, 0
            res = solver.update({"step": k, "time": 0.01 * k, "dt": 0.01}, rs, 0.01, psi=psi0 if state["psi"] is None else state["psi"], mu=mu0,
                                supercurrent=None, normal_current=None, induced_vector_potential=state["induced"], applied_vector_potential=None)
            state["induced"] = res.A_induced
            state["psi"] = res.psi
        return first_use, state["induced"], first_args, state["psi"]

    zero = S.zeros2(H, ne, 2)
    errs = [1.0, 0.0]  # two Polyak iterations per step, then converged
    use_full, _, args_full, _ = run("uninterrupted", zero, 2, errs)
    # the state after the first step of the uninterrupted run
    use_1, induced_1, _, psi_1 = run("uninterrupted", zero, 1, errs)
    use_res, _, args_res, _ = run("resumed", induced_1, 1, errs, psi_in=psi_1)
    H.prove("both runs reach the Euler step", 2 in use_full and 1 in use_res)
    if 2 in use_full and 1 in use_res:
        compare(H, "first use in the resumed step vs. the uninterrupted run's next step", use_res[1], use_full[2], entrywise=False)
        # ... and the Euler step is entered with the same psi and the same |psi|^2: nothing the solver object
        # remembers from the previous step (and a saved frame does not hold) may enter
        (p_r, x_r), (p_f, x_f) = args_res[1], args_full[2]
        H.prove_conj_eq("the resumed step enters the Euler step with the psi of the uninterrupted run's next step", list(zip(K.elems(p_r), K.elems(p_f))))
        H.prove_conj_eq("the resumed step enters the Euler step with the |psi|^2 of the uninterrupted run's next step", list(zip(K.elems(x_r), K.elems(x_f))))


def body_split(H, case, fs):
    N, n1 = case.N, case.n1
    dt = H.real("dt", lo=0.5, hi=1.0)
    dts = [dt] * (N + 3)
    v0 = H.real("v0", lo=-1.0, hi=1.0)
    cfg = dict(k=2, probes=0, prog=0, explicit=False)
    # run lengths in steps: solve_time = n * dt - dt/2 stops exactly at step n
    full_calls, full_frames = run_runner(H, case, cfg, N, N * dt - dt / 2, dts, v0, "full", fs)
    c1, f1 = run_runner(H, case, cfg, N, n1 * dt - dt / 2, dts, v0, "part1", fs)
    last = max(f1)
    H.prove(f"first part ends at step {n1}", last == n1)
    v_resume = f1[last][1]
    c2, f2 = run_runner(H, case, cfg, N, (N - n1) * dt - dt / 2, dts, v_resume, "part2", fs)
    H.prove("uninterrupted run makes N updates; the parts make n1 and N - n1", len(full_calls) == N and len(c1) == n1 and len(c2) == N - n1)
    for i, c in enumerate(c2):
        if n1 + i < len(full_calls):
            H.prove_eq(f"resumed update {i} receives the state of uninterrupted update {n1 + i}", c[3], full_calls[n1 + i][3])
    for s, (t, v) in sorted(f2.items()):
        if n1 + s in full_frames:
            H.prove_eq(f"resumed frame {s} = uninterrupted frame {n1 + s}", v, full_frames[n1 + s][1])
    H.prove("the resumed run's final frame is the uninterrupted run's final frame", max(f2) + n1 == max(full_frames))
