#!/bin/bash
# Build /verif/.venv offline: overlay on /venv (repo deps) + wheelhouse (z3-solver, cvc5, crosshair-tool).
# Idempotent; every check calls it first so that a fresh restore with only committed files works.
set -e
cd "$(dirname "$0")"
V=/verif/.venv
if [ -x "$V/bin/python" ] && [ -f "$V/.ok" ]; then
  exit 0
fi
(
  flock 9
  if [ -x "$V/bin/python" ] && "$V/bin/python" -c "import z3, numpy, scipy, tdgl" >/dev/null 2>&1; then exit 0; fi
  rm -rf "$V"
  /venv/bin/python -m venv "$V"
  SP=$("$V/bin/python" -c "import sysconfig; print(sysconfig.get_paths()['purelib'])")
  printf "import site; site.addsitedir('/venv/lib/python3.12/site-packages')\n/repo\n" > "$SP/_overlay.pth"
  PIP_NO_INDEX=1 "$V/bin/pip" install -q --no-index --find-links /opt/veriftools/wheels z3-solver >/dev/null
  PIP_NO_INDEX=1 "$V/bin/pip" install -q --no-index --find-links /opt/veriftools/wheels crosshair-tool >/dev/null 2>&1 || true
  "$V/bin/python" -c "import z3, numpy, scipy, tdgl" && touch "$V/.ok"
) 9>/verif/.setup.lock
