"""C01 - Charge is conserved in every cell at every recorded step.

(1) One step from an arbitrary state: the real `TDGLSolver.__init__`, `update`,
`update_mu_boundary`, `solve_for_observables`, `get_supercurrent` and the operator builders are
executed on real 2-, 3- and 4-terminal device meshes with symbolic weights, arbitrary new
order parameter (opaque psi-kernel), symbolic time-dependent vector potential (so dA/dt != 0)
and symbolic balanced terminal currents.  With mu any solution of the Poisson system (LU
contract), for every cell i:  a_i (D (J_s + J_n))_i = sum over the cell's boundary edges of
len_b/2 * (terminal current density on b, zero on insulating / hole edges), and the current
through each terminal equals J_scale * I_k.
(2) Acceptance of balanced currents: the real `validate_terminal_currents` is executed on
floating-point values under the standard rounding-error model (each operation carries a
relative error |delta| <= 2^-53); the rejecting path must be unreachable for exactly balanced
inputs.  A `sat` answer is concretised by a QF_FP query over IEEE doubles and replayed."""
import struct

import numpy as np
import z3

from symx import core, engine, meshes, smt
from symx.core import Sc
from symx.engine import Case

from . import common as K
from . import solver_setup as S

ID = "C01"
ENCODED = [
    "tdgl.solver.solver:TDGLSolver.__init__",
    "tdgl.solver.solver:TDGLSolver.update",
    "tdgl.solver.solver:TDGLSolver.update_mu_boundary",
    "tdgl.solver.solver:TDGLSolver.solve_for_observables",
    "tdgl.solver.solver:validate_terminal_currents",
    "tdgl.finite_volume.operators:build_divergence",
    "tdgl.finite_volume.operators:build_gradient",
    "tdgl.finite_volume.operators:build_laplacian",
    "tdgl.finite_volume.operators:build_neumann_boundary_laplacian",
    "tdgl.finite_volume.operators:MeshOperators.get_supercurrent",
    "tdgl.device.device:Device.terminal_info",
]
BOUNDS = {
    "quick": dict(devices=["bar2", "tee3", "bar2:remeshed"], terminals="2..3", acceptance_terminals=[2, 3]),
    "thorough": dict(devices=["bar2", "tee3", "cross4", "bar2:remeshed", "tee3:remeshed"], terminals="2..4", acceptance_terminals=[2, 3]),  # (acceptance for 4 terminals: three roundings in the error model, not decided by nlsat within 600 s: outside the bound)
}
ASSUMPTIONS = [
    "one step from an arbitrary state: supercurrent an arbitrary edge field (the identity is linear in it), psi' arbitrary (opaque psi-kernel), A(t_n), A(t_n-1) arbitrary, cell areas and dual edge lengths arbitrary positive reals, edge lengths symbolic within 10% of the geometric ones, terminal membership concrete (real device meshes)",
    "LU contract: mu is *any* solution of L mu = rhs (solvability of the singular Neumann system for balanced currents is part of the contract)",
    "exact reals for the conservation identity",
    "acceptance: standard model of floating-point arithmetic (relative error <= 2^-53 per operation, no underflow/overflow); inputs exactly balanced over the reals",
]
OUTSIDE = ["rounding inside SuperLU and the sparse products", "devices with more than 4 terminals", "holes (covered at operator level by C03: R8)"]
TV_SAMPLES = {"quick": 2, "thorough": 2}
REACH_TIMEOUT = 60
HOP_SLICE = True  # LU-contract obligations: try the assumptions one hop from the goal first


def patch_spec(case):
    spec = S.patch_spec()
    import tdgl.solver.solver as sol

    real_validate = sol.validate_terminal_currents
    # the constructor samples a callable current 100 times; 2 samples keep the exploration small
    # (validation itself is the subject of the acceptance cases and of C19)
    spec["tdgl.solver.solver"]["validate_terminal_currents"] = lambda c, ti, o, num_evals=100: real_validate(c, ti, o, num_evals=2)
    return spec


def cases(tier, seed):
    out = []
    for d in BOUNDS[tier]["devices"]:
        meshes.get_device(d, seed)
        out.append(Case(f"conservation:{d}", kind="cons", dev=d, seed=seed))
    # the requested currents are stated in current_units: a prefix that differs from the length unit's
    # (mA with um) must still inject exactly the requested current
    out.append(Case("conservation:bar2:current_units=mA", kind="cons", dev="bar2", seed=seed, current_units="mA"))
    for n in BOUNDS[tier]["acceptance_terminals"]:
        out.append(Case(f"acceptance:n={n}", kind="accept", n=n, seed=seed))
    return out


def body(H, case):
    if case.kind == "accept":
        return body_accept(H, case)
    # edge lengths are symbolic within +-10% of the geometric ones (this keeps the ordering of
    # terminals by length mostly decided); areas and dual lengths are arbitrary positive reals
    dev = S.symbolic_device(H, case.dev, case.seed, length_band=0.1)
    mesh = dev.mesh
    em = mesh.edge_mesh
    ns, ne = len(mesh.sites), len(em.edges)
    names = [t.name for t in dev.terminals]
    # balanced symbolic currents: the last one is minus the sum of the others
    cur = [H.real(f"I_{nm}", lo=-10.0, hi=10.0) for nm in names[:-1]]
    cur.append(-K.total(cur))
    currents = dict(zip(names, cur))

    def A3(tag):
        a = H.reals2(f"A{tag}_", ne, 2, lo=-2.0, hi=2.0)
        z = S.zeros2(H, ne, 1)
        from symx.arr import concatenate

        return concatenate([a, z], axis=1) if H.mode == "sym" else np.concatenate([a, z], axis=1)

    pot = S.ScriptedPotential(H, [A3(0), A3(1)])
    dt = H.real("dt", lo=0.001, hi=1.0)
    opts = S.make_options(dt_init=dt, dt_max=dt, adaptive=False, current_units=case.params.get("current_units", "uA"))
    solver = S.make_solver(H, dev, opts, A=pot.make_parameter(), currents=currents, validate=False)
    psi_new = H.cplxs("q", ns)
    solver.adaptive_euler_step = lambda step, psi, abs_sq_psi, mu, epsilon, dt_: (psi_new, abs_sq_psi, dt_)
    # the identity is linear in the supercurrent: generalise to an arbitrary edge field (the real
    # get_supercurrent is covered by C03/C04), which keeps every obligation low-degree
    Js = H.reals("js", ne, lo=-5.0, hi=5.0)
    solver.operators.get_supercurrent = lambda psi: Js
    rs = S.running_state(H, solver)
    psi0 = H.cplxs("p", ns)
    mu0 = H.reals("m", ns)
    zed = H.array([0.0] * ne) if H.mode == "sym" else np.zeros(ne)
    A_before = solver.current_A_applied
    res = solver.update({"step": 1, "time": dt, "dt": dt}, rs, dt, psi=psi0, mu=mu0, supercurrent=zed, normal_current=zed,
                        induced_vector_potential=S.zeros2(H, ne, 2), applied_vector_potential=solver.current_A_applied)
    J = res.supercurrent + res.normal_current
    areas = K.elems(mesh.areas)
    DJ = K.elems(solver.operators.divergence @ J)
    # ---- oracle: terminal current densities, zero elsewhere ---------------------------------
    J_scale = float((4 * ((dev.ureg(opts.current_units) / dev.ureg(dev.length_units)) / dev.K0).to_base_units()).magnitude)
    bidx = [int(b) for b in em.boundary_edge_indices]
    density = {b: 0.0 for b in bidx}
    tinfo = {t.name: t for t in solver.terminal_info}
    # independent of Device.terminal_info(): a boundary edge belongs to a terminal iff its centre
    # lies in the terminal polygon (of the *current* mesh)
    xi0 = dev.coherence_length.magnitude
    centres = np.asarray(xi0 * em.centers)[bidx]
    for term in dev.terminals:
        nm = term.name
        inside = np.atleast_1d(term.contains_points(centres))
        t_edges = [b for b, ins in zip(bidx, inside) if ins]
        L = K.total(K.at(em.edge_lengths, int(e)) for e in t_edges) * xi0
        for e in t_edges:
            density[int(e)] = (J_scale * currents[nm]) / L
        H.prove(f"terminal {nm}: boundary edges = edges whose centre lies in the terminal polygon", sorted(int(e) for e in tinfo[nm].edge_indices) == sorted(t_edges))
        H.prove_eq(f"terminal {nm}: length = covered boundary length", tinfo[nm].length, L)
    mub = solver.mu_boundary
    H.prove_conj_eq("every boundary edge: flux = terminal current density (zero on insulating edges)", [(K.at(mub, k), density[b]) for k, b in enumerate(bidx)])
    inj = [0.0] * ns
    for b in bidx:
        i, j = int(em.edges[b][0]), int(em.edges[b][1])
        half = K.at(em.edge_lengths, b) * density[b] / 2
        inj[i] = inj[i] + half
        inj[j] = inj[j] + half
    # Per-cell conservation  a_i div(Js+Jn)_i = injected current, decided as three small obligations
    # whose conjunction implies it (nlsat's running time on the combined query is erratic):
    #   A  div(Js+Jn)_i = div(Js - dA/dt)_i - (L mu)_i          (definition of J_n; no solve needed)
    #   B  (L mu)_i = div(Js - dA/dt)_i - (B mu_b)_i            (mu solves the Poisson system)
    #   C  a_i (B mu_b)_i = injected current of cell i           (boundary-flux operator and mu_b)
    ops_ = solver.operators
    dA_dt = (solver.current_A_applied - A_before) / dt
    nd = mesh.edge_mesh.normalized_directions
    dAdt_e = H.array([K.at(dA_dt, e, 0) * float(nd[e, 0]) + K.at(dA_dt, e, 1) * float(nd[e, 1]) for e in range(ne)]) if H.mode == "sym" else np.einsum("ij,ij->i", dA_dt, nd)
    Dsrc = K.elems(ops_.divergence @ (res.supercurrent - dAdt_e))
    Lmu = K.elems(ops_.mu_laplacian @ res.mu)
    Bmub = K.elems(ops_.mu_boundary_laplacian @ solver.mu_boundary)
    for i in range(ns):
        H.prove_eq(f"cell {i}: A  div(Js+Jn) = div(Js - dA/dt) - L mu", DJ[i], Dsrc[i] - Lmu[i], slice=True)
    H.prove_conj_eq("every cell: B  L mu = div(Js - dA/dt) - B mu_b (Poisson solve)", [(Lmu[i], Dsrc[i] - Bmub[i]) for i in range(ns)])
    H.prove_conj_eq("every cell: C  a_i (B mu_b)_i = injected terminal current", [(areas[i] * Bmub[i], inj[i]) for i in range(ns)])
    xi = dev.coherence_length.magnitude
    for nm in names:
        t = tinfo[nm]
        tot = K.total(K.at(em.edge_lengths, int(e)) * xi * K.at(mub, bidx.index(int(e))) for e in t.edge_indices)
        H.prove_eq(f"terminal {nm}: total injected current = J_scale * I", tot, J_scale * currents[nm])


# ------------------------------------------------------------------------------------------------
U53 = 2.0**-53


class Fl:
    """A double under the standard rounding-error model: every operation multiplies the exact
    result by (1 + delta), |delta| <= 2^-53 (fresh delta per operation)."""

    n = 0

    def __init__(self, v):
        self.v = Sc.of(v)

    @staticmethod
    def rnd(x):
        Fl.n += 1
        d = z3.Real(f"delta!{Fl.n}")
        core.CTX.assume.append(z3.And(d >= core.to_real(-U53), d <= core.to_real(U53)))
        return Fl(x * (1 + Sc(d)))

    @staticmethod
    def of(o):
        return o if isinstance(o, Fl) else Fl(o)

    def __add__(s, o):
        o = Fl.of(o)
        if isinstance(o.v, Sc) and core.is_zero(o.v.re):
            return s  # x + 0 is exact
        return Fl.rnd(s.v + o.v)

    def __radd__(s, o):
        if isinstance(o, (int, float)) and o == 0:
            return s
        return Fl.of(o) + s

    def __sub__(s, o):
        return Fl.rnd(s.v - Fl.of(o).v)

    def __mul__(s, o):
        return Fl.rnd(s.v * Fl.of(o).v)

    __rmul__ = __mul__

    def __neg__(s):
        return Fl(-s.v)

    def __abs__(s):
        return Fl(abs(s.v))

    def __bool__(s):
        return bool(s.v != 0)

    def __lt__(s, o):
        return s.v < Fl.of(o).v

    def __le__(s, o):
        return s.v <= Fl.of(o).v

    def __gt__(s, o):
        return s.v > Fl.of(o).v

    def __ge__(s, o):
        return s.v >= Fl.of(o).v

    def __eq__(s, o):
        return s.v == Fl.of(o).v

    def __ne__(s, o):
        return s.v != Fl.of(o).v

    __hash__ = None

    def __format__(s, spec):
        return "<fl>"


def body_accept(H, case):
    from types import SimpleNamespace

    from tdgl.solver.solver import validate_terminal_currents

    n = case.n
    names = [f"t{k}" for k in range(n)]
    J = H.real("J_scale", lo=1e-3, hi=1e3)
    cur = [H.real(f"I{k}", lo=-1e3, hi=1e3) for k in range(n - 1)]
    cur.append(-K.total(cur))  # exactly balanced over the reals
    info = [SimpleNamespace(name=nm) for nm in names]
    opts = SimpleNamespace(solve_time=1.0)
    if H.mode == "sym":
        Fl.n = 0
        scaled = {nm: Fl(J) * Fl(c) for nm, c in zip(names, cur)}  # the solver's `J_scale * value`
    else:
        vals = list(cur)
        # concrete replay: the valuation may carry exact doubles found by the QF_FP search
        scaled = {nm: J * c for nm, c in zip(names, vals)}
    try:
        validate_terminal_currents(scaled, info, opts)
        accepted = True
    except ValueError as e:
        if "sum of all terminal currents" not in str(e):
            raise
        accepted = False
    H.prove(f"balanced currents on {n} terminals are accepted", accepted, timeout=60 if n <= 3 else 600)


def fp_search(n, timeout_s=120):
    """QF_FP: exactly balanced doubles (exactness forced by RTP == RTN) that the real validator's
    arithmetic turns into a non-zero sum.  Returns a list of python floats (J, I_0.. I_{n-1}) or None."""
    F = z3.Float64()
    rne, rtp, rtn = z3.RNE(), z3.RTP(), z3.RTN()
    J = z3.FP("J", F)
    I = [z3.FP(f"I{k}", F) for k in range(n)]
    s = z3.Solver()
    s.set("timeout", int(timeout_s * 1000))

    def rng(x, lo, hi):
        return z3.And(z3.Not(z3.fpIsNaN(x)), z3.Not(z3.fpIsInf(x)), z3.fpGEQ(z3.fpAbs(x), z3.FPVal(lo, F)), z3.fpLEQ(z3.fpAbs(x), z3.FPVal(hi, F)))

    s.add(rng(J, 1e-2, 1e2))
    for x in I:
        s.add(rng(x, 1e-2, 1e2))
    # exact balance: partial sums are exact (round-up == round-down) and the last current cancels them
    acc = I[0]
    for k in range(1, n - 1):
        up, dn = z3.fpAdd(rtp, acc, I[k]), z3.fpAdd(rtn, acc, I[k])
        s.add(up == dn)
        acc = up
    s.add(I[n - 1] == z3.fpNeg(acc))
    # the validator: sum(J * I_k) starting from int 0, left to right, round-to-nearest-even
    tot = z3.fpMul(rne, J, I[0])
    for k in range(1, n):
        tot = z3.fpAdd(rne, tot, z3.fpMul(rne, J, I[k]))
    s.add(z3.Not(z3.fpIsZero(tot)))
    if str(s.check()) != "sat":
        return None
    m = s.model()

    def val(x):
        bv = z3.simplify(z3.fpToIEEEBV(m.eval(x, model_completion=True))).as_long()
        return struct.unpack("<d", struct.pack("<Q", bv))[0]

    return [val(J)] + [val(x) for x in I]


_FP_CACHE = {}


def concretise(case, o, vals):
    if case.kind != "accept":
        return None
    n = case.n
    if n not in _FP_CACHE:
        _FP_CACHE[n] = fp_search(n)
    r = _FP_CACHE[n]
    if r is None:
        return None
    out = {"J_scale": r[0]}
    for k in range(n - 1):
        out[f"I{k}"] = r[1 + k]
    return out
