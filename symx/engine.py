"""Harness driver: symbolic exploration of a harness body over the real code, obligation
discharge by SMT, translator validation, replay of counter-examples on the unpatched code,
known-findings protocol, evidence."""
import contextlib
import hashlib
import importlib
import inspect
import json
import math
import os
import re
import sys
import time
import traceback

import numpy as np
import z3

from . import arr as A
from . import core as C
from . import feval, smt
from .core import CTX, Sc, SymBool

VERIF = os.path.dirname(os.path.dirname(os.path.abspath(__file__)))
EXIT_OK, EXIT_VIOLATION, EXIT_INCONCLUSIVE = 0, 1, 3


class HarnessError(Exception):
    pass


class ConcreteReject(Exception):
    """A concrete valuation does not satisfy the harness assumptions."""


# --------------------------------------------------------------------------------------
@contextlib.contextmanager
def patched(spec):
    """spec: {module_name: {global_name: replacement}}; restores on exit."""
    saved = []
    try:
        for modname, names in spec.items():
            mod = importlib.import_module(modname) if isinstance(modname, str) else modname
            for n, v in names.items():
                saved.append((mod, n, mod.__dict__.get(n, _MISSING)))
                mod.__dict__[n] = v
        yield
    finally:
        for mod, n, old in reversed(saved):
            if old is _MISSING:
                mod.__dict__.pop(n, None)
            else:
                mod.__dict__[n] = old


_MISSING = object()


def std_patch(*modnames, extra=None, sp=True, flt=True):
    """Standard facade set for the given modules."""
    spec = {}
    for m in modnames:
        mod = importlib.import_module(m)
        d = {}
        if "np" in mod.__dict__:
            d["np"] = A.NPFacade()
        if sp and "sp" in mod.__dict__:
            d["sp"] = A.SPFacade()
        if flt:
            d["float"] = C.sym_float
        # numba kernels are executed through their Python source (`.py_func`); the compiled code is outside every claim
        for k, v in list(mod.__dict__.items()):
            if hasattr(v, "py_func") and callable(getattr(v, "py_func", None)):
                d[k] = v.py_func
        spec[m] = d
    for m, d in (extra or {}).items():
        spec.setdefault(m, {}).update(d)
    return spec


# --------------------------------------------------------------------------------------
class Obligation:
    __slots__ = (
        "case", "name", "kind", "claim", "lhs", "rhs", "pc", "path_assume", "assume", "path_id",
        "choices", "slice", "timeout", "result", "note", "lu_log", "ctx", "margin", "tactic", "scale", "pairs", "subst", "confirm_by",
    )

    def __init__(self, **kw):
        for k in self.__slots__:
            setattr(self, k, kw.get(k))

    @property
    def key(self):
        return f"{self.case}/{self.name}"


class Case:
    def __init__(self, name, **params):
        self.name = name
        self.params = params

    def __getattr__(self, k):
        try:
            return self.params[k]
        except KeyError:
            raise AttributeError(k)

    def __repr__(self):
        return f"Case({self.name})"


# --------------------------------------------------------------------------------------
class HBase:
    """Interface the harness bodies use; two implementations (symbolic / concrete)."""

    mode = None

    def array(self, vals):
        """1-d array from a list of scalars"""
        raise NotImplementedError

    def reals(self, prefix, n, **kw):
        return self.array([self.real(f"{prefix}{i}", **kw) for i in range(n)])

    def cplxs(self, prefix, n, **kw):
        return self.array([self.cplx(f"{prefix}{i}", **kw) for i in range(n)])

    def reals2(self, prefix, n, m, **kw):
        rows = [[self.real(f"{prefix}{i}_{j}", **kw) for j in range(m)] for i in range(n)]
        return self.array2(rows)


class HSym(HBase):
    mode = "sym"

    def __init__(self, case, seed=0):
        self.case = case
        self.seed = seed
        self.obligations = []
        self.path_id = 0
        self.choices = {}
        self.n_proved_inline = 0
        self.check_defined = False
        self.default_timeout = 60
        self.default_slice = False
        self.ranges = {}  # input name -> (lo, hi, kind) for concrete sampling
        self.events = []
        self.subst = None  # current abstraction: list of (term, fresh var) pairs applied to whole queries
        self.inline_samples = []

    # inputs -------------------------------------------------------------------------------
    def _declare(self, name, lo=None, hi=None, pos=False, nonneg=False, lo_open=False, hi_open=False, jitter=False):
        if name in CTX.inputs:
            return CTX.inputs[name]
        v = z3.Real(name)
        CTX.inputs[name] = v
        if pos:
            CTX.assume.append(v > 0)
        if nonneg:
            CTX.assume.append(v >= 0)
        if lo is not None:
            CTX.assume.append(v > C.to_real(lo) if lo_open else v >= C.to_real(lo))
        if hi is not None:
            CTX.assume.append(v < C.to_real(hi) if hi_open else v <= C.to_real(hi))
        self.ranges[name] = (lo, hi, "pos" if pos else "nonneg" if nonneg else "real", lo_open, hi_open)
        return v

    def real(self, name, **kw):
        return Sc(self._declare(name, **kw))

    def cplx(self, name, **kw):
        return Sc(self._declare(name + ".re", **kw), self._declare(name + ".im", **kw))

    def phase(self, name):
        """A phase atom: appears only inside exp(i * integer-combination)."""
        if name not in CTX.phase_atoms:
            v = C.declare_phase(name)
            CTX.inputs[name] = v
            self.ranges[name] = (-math.pi, math.pi, "phase", False, False)
        return Sc(z3.Real(name))

    def const(self, x):
        return x

    def array(self, vals):
        return A.SA(np.array(list(vals) + [None], dtype=object)[:-1])

    def array2(self, rows):
        out = np.empty((len(rows), len(rows[0]) if rows else 0), dtype=object)
        for i, r in enumerate(rows):
            for j, v in enumerate(r):
                out[i, j] = v
        return A.SA(out)

    def choice(self, label, options):
        options = list(options)
        i = CTX.ctl.choose(len(options), label)
        self.choices[label] = i
        return options[i]

    def assume(self, cond, note=None):
        """Global assumption on inputs (must be satisfiable: checked by the vacuity guard)."""
        e = cond.e if isinstance(cond, SymBool) else z3.BoolVal(bool(cond))
        CTX.add_path_assume(e)

    # claims -------------------------------------------------------------------------------
    def _mk(self, name, kind, claim, lhs=None, rhs=None, slice=None, timeout=None, margin=None, tactic=None, scale=None, confirm_by=None):
        o = Obligation(
            case=self.case.name, name=name, kind=kind, claim=claim, lhs=lhs, rhs=rhs,
            pc=list(CTX.ctl.pc), path_assume=list(CTX.path_assume), path_id=self.path_id,
            choices=dict(self.choices), slice=self.default_slice if slice is None else slice,
            timeout=timeout or self.default_timeout, lu_log=list(CTX.lu_log), margin=margin, tactic=tactic, scale=scale,
            subst=list(self.subst) if self.subst else None, confirm_by=confirm_by,
        )
        self.obligations.append(o)
        return o

    def prove_eq(self, name, lhs, rhs, **kw):
        l, r = Sc.of(lhs), Sc.of(rhs)
        claim = z3.And(l.re == r.re, l.im == r.im) if not (C.is_zero(l.im) and C.is_zero(r.im)) else (l.re == r.re)
        return self._mk(name, "eq", claim, l, r, **kw)

    def prove_all_eq(self, name, lhs_arr, rhs_arr, **kw):
        L = np.asarray(A._d(lhs_arr), dtype=object).ravel()
        R = np.asarray(A._d(rhs_arr), dtype=object).ravel()
        if len(L) != len(R):
            raise HarnessError(f"{name}: shape mismatch {len(L)} vs {len(R)}")
        for i, (l, r) in enumerate(zip(L, R)):
            self.prove_eq(f"{name}[{i}]", l, r, **kw)

    def prove_conj_eq(self, name, pairs, **kw):
        """One obligation for a conjunction of (complex) equalities."""
        cl, kept = [], []
        for l, r in pairs:
            l, r = Sc.of(l), Sc.of(r)
            e = z3.simplify(z3.And(l.re == r.re, l.im == r.im))
            if not z3.is_true(e):
                cl.append(e)
                kept.append((l, r))
        o = self._mk(name, "bool", z3.And(*cl) if cl else z3.BoolVal(True), **kw)
        o.pairs = kept
        return o

    def prove(self, name, cond, **kw):
        if isinstance(cond, SymBool):
            e = cond.e
        elif isinstance(cond, (bool, np.bool_)):
            if bool(cond):
                # a concrete fact on this path: nothing to decide (counted, not queried)
                self.n_proved_inline += 1
                if len(self.inline_samples) < 6:
                    self.inline_samples.append(name)
                return None
            e = z3.BoolVal(False)
        else:
            raise HarnessError(f"{name}: claim is not boolean: {type(cond)}")
        return self._mk(name, "bool", e, **kw)

    def unreachable(self, name, **kw):
        """The current path must be infeasible (e.g. an exception escaped)."""
        return self._mk(name, "unreachable", z3.BoolVal(False), **kw)

    def note(self, *a):
        self.events.append(a)

    # helpers usable in both modes -------------------------------------------------------------
    def is_true(self, cond):
        """Branch on a (possibly symbolic) condition inside the harness."""
        return bool(cond)

    def abs2(self, x):
        x = Sc.of(x)
        return Sc(C.simp(x.re * x.re + x.im * x.im))

    def sqrt(self, x):
        return Sc.of(x).sqrt()

    def exp_i(self, x):
        return C.exp_i(Sc.of(x).re)

    def fresh_abstract(self, name, term):
        """Staging: replace a returned sub-term by a fresh variable (returns var, and the
        substitution pair so that lemmas about it can be stated separately)."""
        v = z3.Real(name)
        return Sc(v)


class HConc(HBase):
    mode = "conc"

    def __init__(self, case, values=None, choices=None, seed=0, ranges=None):
        self.case = case
        self.values = dict(values or {})
        self.choices_in = dict(choices or {})
        self.rng = np.random.default_rng(seed)
        self.results = {}  # name -> dict(ok=, lhs=, rhs=, err=)
        self.ranges = ranges or {}
        self.used = {}
        self.check_defined = False
        self.default_timeout = 0
        self.default_slice = False
        self.choices = {}
        self.events = []
        self.tol = 1e-8

    def _val(self, name, lo=None, hi=None, pos=False, nonneg=False, lo_open=False, hi_open=False, jitter=False):
        if name in self.used:
            return self.used[name]
        if name in self.values and self.values[name] is not None:
            v = float(self.values[name])
            if jitter:
                # solver models have "nice" rational weights for which the singular pure-Neumann
                # Laplacian is *exactly* singular in doubles (SuperLU then refuses to factor); real
                # meshes never are, so break the tie by a 1e-13 relative perturbation
                h = int.from_bytes(hashlib.sha256(name.encode()).digest()[:4], "little") / 2**32
                v = v * (1.0 + getattr(self, "jitter", 1e-13) * (2 * h - 1))
        else:
            a = lo if lo is not None else (0.25 if pos else 0.0 if nonneg else -2.0)
            b = hi if hi is not None else (a + 3.0 if (pos or nonneg or lo is not None) else 2.0)
            a, b = float(a), float(b)
            if not math.isfinite(b - a) or b - a > 1e6:
                b = a + 4.0
            v = float(self.rng.uniform(a, b))
            if pos and v <= 0:
                v = 0.5
        self.used[name] = v
        return v

    def real(self, name, **kw):
        return self._val(name, **kw)

    def cplx(self, name, **kw):
        return complex(self._val(name + ".re", **kw), self._val(name + ".im", **kw))

    def phase(self, name):
        return self._val(name, lo=-math.pi, hi=math.pi)

    def array(self, vals):
        vals = list(vals)
        if any(isinstance(v, complex) for v in vals):
            return np.array(vals, dtype=complex)
        return np.array(vals, dtype=float)

    def array2(self, rows):
        return np.array(rows, dtype=float)

    def choice(self, label, options):
        options = list(options)
        i = self.choices_in.get(label)
        if i is None:
            i = int(self.rng.integers(len(options)))
        self.choices[label] = i
        return options[i]

    def assume(self, cond, note=None):
        if not bool(cond):
            raise ConcreteReject(note or "assumption violated")

    def prove_eq(self, name, lhs, rhs, scale=None, **kw):
        l, r = complex(lhs), complex(rhs)
        sc = max(float(scale) if scale else 1.0, abs(l), abs(r))  # `scale` replaces the absolute floor of 1
        err = abs(l - r)
        ok = bool(err <= self.tol * sc) and not (math.isnan(err))
        if not ok and ((l != l and r != r) or l == r):
            ok, err = True, 0.0  # both sides NaN, or the same infinity: the two computations agree
        self.results[name] = dict(ok=ok, lhs=l, rhs=r, err=err / sc)

    def prove_all_eq(self, name, lhs_arr, rhs_arr, **kw):
        L = np.asarray(lhs_arr).ravel()
        R = np.asarray(rhs_arr).ravel()
        if len(L) != len(R):
            raise HarnessError(f"{name}: shape mismatch")
        for i, (l, r) in enumerate(zip(L, R)):
            self.prove_eq(f"{name}[{i}]", l, r, **kw)

    def prove_conj_eq(self, name, pairs, **kw):
        worst = 0.0
        for l, r in pairs:
            l, r = complex(l), complex(r)
            worst = max(worst, abs(l - r) / max(1.0, abs(l), abs(r)))
        self.results[name] = dict(ok=bool(worst <= self.tol), lhs=None, rhs=None, err=worst)

    def prove(self, name, cond, **kw):
        self.results[name] = dict(ok=bool(cond), lhs=None, rhs=None, err=None)

    def unreachable(self, name, **kw):
        self.results[name] = dict(ok=False, lhs=None, rhs=None, err=None)

    def note(self, *a):
        self.events.append(a)

    def is_true(self, cond):
        return bool(cond)

    def abs2(self, x):
        return abs(x) ** 2

    def sqrt(self, x):
        return math.sqrt(x) if not isinstance(x, complex) else np.sqrt(x)

    def exp_i(self, x):
        return complex(math.cos(x), math.sin(x))


# --------------------------------------------------------------------------------------
class PathInfo:
    def __init__(self, pid, status, trace, pc, path_assume, choices, n_obl, detail=""):
        self.pid, self.status, self.trace, self.pc = pid, status, trace, pc
        self.path_assume, self.choices, self.n_obl, self.detail = path_assume, choices, n_obl, detail
        self.reach = None


class CaseRun:
    """Result of the symbolic exploration of one case."""

    def __init__(self, case):
        self.case = case
        self.paths = []
        self.obligations = []
        self.assume = []
        self.ctx = None
        self.ranges = {}
        self.decisions = 0
        self.time = 0.0
        self.np_used = set()
        self.defined = []


def explore_case(harness, case, seed, max_paths=2000, feasibility="linear", time_budget=600):
    CTX.reset()
    C._opaque_decls.clear()
    CTX.ctl.feasibility = feasibility
    CTX.merge = bool(getattr(harness, "MERGE", False))
    CTX.abstract_div = bool(getattr(harness, "ABSTRACT_DIV", False))
    CTX.simplify = bool(getattr(harness, "SIMPLIFY", True))
    CTX.trace_calls = bool(getattr(harness, "TRACE_CALLS", False))
    H = HSym(case, seed)
    H.default_slice = bool(getattr(harness, "DEFAULT_SLICE", False))
    run = CaseRun(case)
    spec = harness.patch_spec(case) if hasattr(harness, "patch_spec") else {}
    todo = [[]]
    t0 = time.time()
    pid = 0
    with patched(spec):
        while todo:
            if pid >= max_paths or time.time() - t0 > time_budget:
                raise HarnessError(f"{case.name}: path budget exceeded ({pid} paths, {time.time()-t0:.0f}s)")
            plan = todo.pop()
            CTX.ctl.start_path(plan)
            H.path_id = pid
            H.choices = {}
            n0 = len(H.obligations)
            status, detail = "ok", ""
            try:
                harness.body(H, case)
            except C.PathInfeasible:
                status = "infeasible"
                del H.obligations[n0:]
            except C.UnwindBound as e:
                status = "unwind"
                detail = str(e)
                # unwinding assertion: the bound must not be reachable
                H.unreachable(f"unwind-bound:{detail}")
            except C.Unsupported:
                raise
            except Exception as e:  # escaped the harness: the path must be infeasible
                status = "exception"
                detail = f"{type(e).__name__}: {e}"
                tb = traceback.extract_tb(e.__traceback__)
                site = next((f"{os.path.basename(f.filename)}:{f.lineno}" for f in reversed(tb) if "/tdgl/" in f.filename), None)
                if os.environ.get("SYMX_DEBUG"):
                    traceback.print_exc()
                if site is None or type(e).__name__ in ("HarnessError",):
                    raise HarnessError(f"{case.name}: exception outside the code under analysis: {detail}") from e
                H.unreachable(f"no-exception:{type(e).__name__}@{site.split(':')[0]}", )
                H.obligations[-1].note = detail + " @ " + site
            run.paths.append(
                PathInfo(pid, status, list(CTX.ctl.trace), list(CTX.ctl.pc), list(CTX.path_assume), dict(H.choices), len(H.obligations) - n0, detail)
            )
            if H.check_defined and status != "infeasible":
                for kind, term, pc, pa in CTX.defined:
                    run.defined.append((pid, kind, term, pc, pa))
            todo.extend(CTX.ctl.pending)
            pid += 1
    for k, (lname, lclaim, lpc, lpa) in enumerate(CTX.lemmas):
        H.obligations.append(Obligation(case=case.name, name=f"lemma:{lname}#{k}", kind="lemma", claim=lclaim, pc=lpc, path_assume=lpa,
                                        path_id=-1, choices={}, slice=False, timeout=H.default_timeout, lu_log=[]))
    run.inline_true = H.n_proved_inline
    run.inline_samples = list(H.inline_samples)
    run.obligations = H.obligations
    if getattr(harness, "PHASE_AXIOMS", False):
        CTX.assume.extend(C.phase_axioms())
    run.assume = list(CTX.assume)
    run.ranges = dict(H.ranges)
    run.decisions = CTX.ctl.decisions
    run.time = time.time() - t0
    # keep what the float evaluator needs
    run.ctx = _CtxSnapshot(CTX)
    for o in run.obligations:
        o.assume = run.assume
        o.ctx = run.ctx
    for d in spec.values():
        for v in d.values():
            if isinstance(v, A.NPFacade):
                run.np_used |= v.used
    return run


class _CtxSnapshot:
    def __init__(self, ctx):
        self.sqrt = dict(ctx.sqrt)
        self.phase = dict(ctx.phase)
        self.phase_atoms = dict(ctx.phase_atoms)
        self.phase_terms = dict(ctx.phase_terms)
        self.opaque_eval = dict(ctx.opaque_eval)
        self.inputs = dict(ctx.inputs)
        self.uninit = list(ctx.uninit)
        self.quot = dict(ctx.quot)


# --------------------------------------------------------------------------------------
def _vars_of(e, cache):
    i = e.get_id()
    if i in cache:
        return cache[i][1]
    out = set()
    stack = [e]
    seen = set()
    while stack:
        t = stack.pop()
        ti = t.get_id()
        if ti in seen:
            continue
        seen.add(ti)
        if z3.is_const(t) and t.decl().kind() == z3.Z3_OP_UNINTERPRETED:
            out.add(t.decl().name())
        else:
            stack.extend(t.children())
    cache[i] = (e, out)  # the term is kept alive: z3 re-uses the ids of collected terms (substituted queries are temporaries)
    return out


def _split_conj(e):
    e = z3.simplify(e) if False else e
    if z3.is_and(e):
        out = []
        for c in e.children():
            out.extend(_split_conj(c))
        return out
    if z3.is_not(e) and z3.is_or(e.children()[0]):
        out = []
        for c in e.children()[0].children():
            out.extend(_split_conj(z3.Not(c)))
        return out
    return [e]


def cone_slice(conjuncts, goal, cache, hops=None):
    """Keep only the conjuncts connected (through shared variables) to the goal's variables;
    hops=k limits the closure to k rounds (dropping assumptions is sound for `unsat`)."""
    parts = []
    for c in conjuncts:
        parts.extend(_split_conj(c))
    vs = set(_vars_of(goal, cache))
    remaining = [(c, _vars_of(c, cache)) for c in parts]
    kept = []
    changed = True
    rounds = 0
    while changed and (hops is None or rounds < hops):
        rounds += 1
        changed = False
        vs0 = set(vs)
        rest = []
        for c, cv in remaining:
            if not cv:
                kept.append(c)
            elif cv & vs0:
                kept.append(c)
                vs |= cv
                changed = True
            else:
                rest.append((c, cv))
        remaining = rest
    return kept, len(remaining)


def obligation_query(o, cache, margin=None, hops=None):
    neg = z3.Not(o.claim)
    if margin is not None and (o.kind == "eq" or o.pairs):
        m = C.to_real(margin)
        ds = []
        for (l, r) in (o.pairs if o.pairs else [(o.lhs, o.rhs)]):
            ds += [l.re - r.re, l.im - r.im]
        neg = z3.Or(*[z3.Or(d > m, d < -m) for d in ds])
    base = list(o.assume) + list(o.path_assume) + list(o.pc)
    if o.subst:
        # staging: generalise by replacing intermediate terms of the real code by fresh variables
        base = [z3.substitute(c, *o.subst) for c in base]
        neg = z3.substitute(neg, *o.subst)
    if o.slice:
        kept, dropped = cone_slice(base, neg, cache, hops=hops)
        return kept + [neg], dropped
    return base + [neg], 0


# --------------------------------------------------------------------------------------
def model_to_valuation(model, run):
    """Solver model -> {input name: float}; phase atoms from their (cos, sin) pair."""
    vals = {}
    for name in run.ctx.inputs:
        if name in run.ctx.phase_atoms and feval.parse_model_value(model.get(name)) is None:
            # the angle itself does not occur in the query (only its unit pair does)
            c, s = run.ctx.phase_atoms[name]
            cv = feval.parse_model_value(model.get(c.decl().name()))
            sv = feval.parse_model_value(model.get(s.decl().name()))
            if cv is not None and sv is not None:
                vals[name] = math.atan2(sv, cv)
            continue
        if name in model:
            v = feval.parse_model_value(model[name])
            if v is not None:
                vals[name] = v
    return vals


def run_concrete(harness, case, values=None, choices=None, seed=0, ranges=None, jitter=1e-13):
    H = HConc(case, values, choices, seed, ranges)
    H.jitter = jitter
    H.exception = None
    try:
        harness.body(H, case)
    except ConcreteReject:
        raise
    except Exception as e:
        if isinstance(e, RuntimeError) and "exactly singular" in str(e):
            # SuperLU refuses an *exactly* singular factor of the (always singular) pure-Neumann
            # Laplacian; with geometric meshes rounding prevents it, with synthetic weights it can
            # happen: not a behaviour of the code under test, resample / re-jitter
            raise ConcreteReject("SuperLU: factor exactly singular for these synthetic weights")
        H.exception = e
        H.exception_tb = traceback.format_exc()
    return H


def sample_valuation(run, rng):
    vals = {}
    for name, (lo, hi, kind, lo_open, hi_open) in run.ranges.items():
        a = lo if lo is not None else (0.25 if kind == "pos" else 0.0 if kind == "nonneg" else -2.0)
        b = hi if hi is not None else (a + 3.0 if (kind in ("pos", "nonneg") or lo is not None) else 2.0)
        a, b = float(a), float(b)
        if b - a > 1e6:
            b = a + 4.0
        v = float(rng.uniform(a, b))
        if kind == "pos" and v <= 0:
            v = 0.5
        vals[name] = v
    return vals


def path_matches(env, pc, path_assume):
    try:
        return all(env.eval(c) for c in pc) and all(env.eval(c) for c in path_assume)
    except (feval.Reject, KeyError):
        return False


# --------------------------------------------------------------------------------------
def source_fingerprint(qualnames):
    out = []
    for q in qualnames:
        modname, _, attr = q.partition(":")
        try:
            mod = importlib.import_module(modname)
            obj = mod
            for part in attr.split("."):
                obj = getattr(obj, part)
            obj = getattr(obj, "py_func", obj)
            obj = getattr(obj, "__func__", obj)
            src = inspect.getsource(obj)
            out.append(dict(function=q, sha256=hashlib.sha256(src.encode()).hexdigest()[:16], lines=src.count("\n")))
        except Exception as e:
            out.append(dict(function=q, error=f"{type(e).__name__}: {e}"))
    return out


def load_known_findings():
    p = os.path.join(VERIF, "known_findings.json")
    if not os.path.exists(p):
        return []
    with open(p) as f:
        return json.load(f).get("findings", [])


def match_known(findings, prop, case, oblname):
    for k in findings:
        if k.get("status", "open") != "open":
            continue  # fixed entries suppress nothing
        if k["property"] != prop:
            continue
        if re.fullmatch(k.get("case", ".*"), case) and re.fullmatch(k.get("obligation", ".*"), oblname):
            return k
    return None


# --------------------------------------------------------------------------------------
def run_harness(harness, tier="quick", seed=0, replay=None, verbose=True):
    """Returns the exit code; writes evidence."""
    t_start = time.time()
    pid = harness.ID
    log = (lambda *a: print(*a, flush=True)) if verbose else (lambda *a: None)
    findings = load_known_findings()
    cases = harness.cases(tier, seed)
    if os.environ.get("VERIF_ONLY"):  # debugging aid: restrict to the cases whose name contains the string
        cases = [c for c in cases if os.environ["VERIF_ONLY"] in c.name]
    feas = getattr(harness, "FEASIBILITY", "linear")
    max_paths = getattr(harness, "MAX_PATHS", {}).get(tier, 4000)
    runs = []
    t0 = time.time()
    case_problems = []
    for case in cases:
        try:
            r = explore_case(harness, case, seed, max_paths=max_paths, feasibility=feas,
                             time_budget=getattr(harness, "CASE_TIME_BUDGET", {}).get(tier, 300 if tier == "quick" else 900))  # (wall-clock: generous, the checks may run on a loaded machine)
        except (HarnessError, C.Unsupported) as e:
            # inconclusive for this case only: violations found in other cases are still reported
            case_problems.append(f"case {case.name}: {type(e).__name__}: {e}")
            log(f"[{pid}] case {case.name}: NOT EXPLORED ({type(e).__name__}: {e})")
            if os.environ.get("SYMX_DEBUG"):
                traceback.print_exc()
            continue
        runs.append(r)
        log(f"[{pid}] case {case.name}: {len(r.paths)} paths, {len(r.obligations)} obligations, {r.decisions} decisions, {r.time:.1f}s")
    t_explore = time.time() - t0

    # ---- discharge ----------------------------------------------------------------------
    second = tier == "thorough" and getattr(harness, "SECOND_SOLVER", True)
    reach_pre = {}
    cache = {}
    # phase 0: sliced obligations are first tried with the assumptions one hop away from the goal
    # only (dropping assumptions is sound for `unsat`); what this discharges skips the full query
    pre_discharged = {}
    if getattr(harness, "HOP_SLICE", False):
        b0 = smt.Batch(pid + "-hop")
        idx0 = []
        for r in runs:
            for o in r.obligations:
                if o.slice and o.kind in ("eq", "bool") and not o.subst:
                    q_full, _ = obligation_query(o, cache)
                    q1, _ = obligation_query(o, cache, hops=1)
                    if len(q1) < len(q_full):
                        b0.add(q1, timeout_s=min(o.timeout, 30), tactic=o.tactic)
                        idx0.append(o)
        if idx0:
            for o, res in zip(idx0, b0.solve()):
                if res.status == "unsat":
                    res.by = (res.by or "z3") + " (assumptions within one hop of the goal)"
                    pre_discharged[id(o)] = res
        b0.cleanup()
    batch = smt.Batch(pid)
    index = []  # (kind, run, obj)
    for r in runs:
        for o in r.obligations:
            if id(o) in pre_discharged:
                continue
            q, dropped = obligation_query(o, cache)
            batch.add(q, timeout_s=o.timeout, tactic=o.tactic)
            index.append(("obl", r, o))
        wrng = np.random.default_rng(seed + 3)
        lu_by_path = {}
        for o in r.obligations:
            if o.lu_log and o.path_id not in lu_by_path:
                lu_by_path[o.path_id] = o.lu_log
        for p in r.paths:
            if p.status == "infeasible":
                continue
            # cheap reachability witness: a concrete point that satisfies the path condition
            wit = False
            if p.pc or p.path_assume:
                for _ in range(getattr(harness, "REACH_SAMPLES", 30)):
                    env = feval.Env(r.ctx, sample_valuation(r, wrng), lu_by_path.get(p.pid, []), wrng)
                    try:
                        if path_matches(env, p.pc, p.path_assume):
                            wit = True
                            break
                    except NotImplementedError:
                        break
            if wit:
                p.reach = "sat"
                reach_pre.setdefault(r.case.name, []).append("sat")
                continue
            batch.add(list(r.assume) + p.path_assume + p.pc, timeout_s=getattr(harness, "REACH_TIMEOUT", 30))
            index.append(("reach", r, p))
        # definedness: one query per path (disjunction of all bad events on it)
        byp = {}
        for (ppid, kind, term, pc, pa) in r.defined:
            bad = (term < 0) if kind == "sqrt" else (term == 0)
            byp.setdefault(ppid, []).append(z3.And(*(pc + pa + [bad])))
        for ppid, bads in byp.items():
            # dedupe
            uniq = {b.get_id(): b for b in bads}
            batch.add(list(r.assume) + [z3.Or(*uniq.values())], timeout_s=getattr(harness, "DEFINED_TIMEOUT", 60))
            index.append(("defined", r, (ppid, len(uniq))))
    t0 = time.time()
    results = batch.solve(second_solver=second)
    t_solve = time.time() - t0
    log(f"[{pid}] {len(results)} queries in {t_solve:.1f}s wall")

    inconclusive = []
    sat_obls = []
    lemma_failed = []
    discharged = 0
    solver_time = 0.0
    discharged_pre = 0
    solver_time_pre = 0.0
    reach_ok = {k: list(v) for k, v in reach_pre.items()}
    defined_stats = dict(queries=0, unsat=0)
    disagreements = []
    for r in runs:
        for o in r.obligations:
            if id(o) in pre_discharged:
                o.result = pre_discharged[id(o)]
                discharged_pre += 1
                solver_time_pre += o.result.time
    for (kind, r, obj), res in zip(index, results):
        solver_time += res.time
        if res.second and res.second[0] in ("sat", "unsat") and res.status in ("sat", "unsat") and res.second[0] != res.status:
            disagreements.append((kind, getattr(obj, "key", str(obj)), res.status, res.second))
        if kind == "obl":
            obj.result = res
            if res.status == "unsat":
                discharged += 1
            elif res.status == "sat" and obj.kind == "lemma":
                lemma_failed.append(obj)
            elif res.status == "sat" and obj.subst:
                res.detail = "sat on the abstracted query (no input model): searching at input level"
                inconclusive.append((r, obj, res))
            elif res.status == "sat":
                sat_obls.append((r, obj))
            else:
                inconclusive.append((r, obj, res))
        elif kind == "reach":
            obj.reach = res.status
            reach_ok.setdefault(r.case.name, []).append(res.status)
        else:
            defined_stats["queries"] += 1
            if res.status == "unsat":
                defined_stats["unsat"] += 1
            elif res.status == "sat":
                o = Obligation(case=r.case.name, name=f"defined:path{obj[0]}", kind="defined", claim=z3.BoolVal(False),
                               pc=[], path_assume=[], assume=r.assume, path_id=obj[0], choices=next((p.choices for p in r.paths if p.pid == obj[0]), {}), ctx=r.ctx, lu_log=[])
                o.result = res
                sat_obls.append((r, o))
            else:
                inconclusive.append((r, Obligation(case=r.case.name, name=f"defined:path{obj[0]}", kind="defined"), res))

    problems = list(case_problems)
    if lemma_failed:
        problems.append(f"merge lemma not valid (engine staging unjustified): {[o.key for o in lemma_failed[:3]]}")
    if disagreements:
        problems.append(f"solver disagreement: {disagreements[:3]}")
    # vacuity: every case needs at least one path proven reachable
    for r in runs:
        sts = reach_ok.get(r.case.name, [])
        if "sat" not in sts:
            problems.append(f"vacuity: no path of case {r.case.name} proven reachable ({sts[:5]})")

    # ---- unknown -> counter-example search by full specialisation -------------------------------
    hunted = 0
    rng = np.random.default_rng(seed + 7)
    still_inconclusive = []
    for (r, o, res) in inconclusive:
        found = None
        if o.kind in ("eq", "bool", "unreachable") and o.claim is not None and o.pc is not None:
            for _ in range(getattr(harness, "HUNT_SAMPLES", 40)):
                vals = sample_valuation(r, rng)
                env = feval.Env(r.ctx, vals, o.lu_log, rng)
                try:
                    if not path_matches(env, o.pc, o.path_assume):
                        continue
                    if not env.eval(o.claim):
                        found = vals
                        break
                except (feval.Reject, KeyError, NotImplementedError):
                    continue
        if found is not None:
            hunted += 1
            o.result = smt.Result("sat", {k: v for k, v in found.items()}, res.time, by="specialisation(all inputs pinned)")
            o.result.model = None
            sat_obls.append((r, o))
            o.note = (o.note or "") + " [found by specialisation]"
            setattr_safe(o, found)
        else:
            still_inconclusive.append((r, o, res))
    inconclusive = still_inconclusive

    # ---- replay of counter-examples on the unpatched code ------------------------------------------
    violations, known_hits, unreproduced = [], [], []
    n_margin_retries = 0
    os.makedirs(os.path.join(VERIF, "replays"), exist_ok=True)
    # replay order: candidates that match no open known finding first; stop once enough are confirmed
    sat_obls.sort(key=lambda ro: 0 if match_known(findings, pid, ro[1].case, ro[1].name) is None else 1)
    confirmed_unlisted, confirmed_known, skipped_replays = 0, {}, 0
    for (r, o) in sat_obls:
        k0 = match_known(findings, pid, o.case, o.name)
        if (k0 is None and confirmed_unlisted >= 8) or (k0 is not None and confirmed_known.get(k0["id"], 0) >= 2):
            skipped_replays += 1
            continue
        vals = _HUNT_VALS.pop(id(o), None)
        if vals is None:
            vals = model_to_valuation(o.result.model or {}, r)
        if hasattr(harness, "concretise"):
            # harness-specific concretisation of a model of an over-approximating encoding
            # (e.g. rounding-error model -> IEEE doubles by a QF_FP query)
            v2 = harness.concretise(r.case, o, vals)
            if v2 is not None:
                vals = v2
        ok, info = replay_obligation(harness, r, o, vals, seed)
        if not ok and (o.kind == "eq" or o.pairs) and o.result.model is not None and n_margin_retries < 8:
            # the model may violate the claim only infinitesimally: ask again with a margin
            for margin in (1e-3, 1e-6):
                n_margin_retries += 1
                q, _ = obligation_query(o, cache, margin=margin)
                b2 = smt.Batch(pid + "-m")
                b2.add(q, timeout_s=min(o.timeout, 30))
                res2 = b2.solve()[0]
                b2.cleanup()
                if res2.status == "sat":
                    vals = model_to_valuation(res2.model, r)
                    ok, info = replay_obligation(harness, r, o, vals, seed)
                    if ok:
                        break
        if ok:
            rec = dict(property=pid, case=o.case, obligation=o.name, kind=o.kind, choices=o.choices, valuation=vals,
                       observed=info, found_by=o.result.by, note=o.note)
            h = hashlib.sha256(json.dumps([o.case, o.name], sort_keys=True).encode()).hexdigest()[:10]
            path = os.path.join(VERIF, "replays", f"{pid}-{h}.json")
            with open(path, "w") as f:
                json.dump(rec, f, indent=1, default=str)
            k = match_known(findings, pid, o.case, o.name)
            if k is not None:
                known_hits.append((k, o, path))
                confirmed_known[k["id"]] = confirmed_known.get(k["id"], 0) + 1
            else:
                violations.append((o, path, info))
                confirmed_unlisted += 1
        else:
            unreproduced.append((o, info))

    # ---- translator validation ----------------------------------------------------------------
    t_tv0 = time.time()
    tv = translator_validation(harness, runs, seed, n=getattr(harness, "TV_SAMPLES", {}).get(tier, 3), log=log)
    log(f"[{pid}] timing: explore {t_explore:.0f}s, solve {t_solve:.0f}s, translator validation {time.time() - t_tv0:.0f}s, since start {time.time() - t_start:.0f}s")
    if tv["mismatches"]:
        problems.append(f"translator validation mismatches: {tv['mismatches'][:3]}")
    # a concrete failure of a claim the solver could NOT decide (unknown / sat only on an abstracted query)
    # is a counter-example found by sampling: confirm it by the ordinary replay and report it
    for (cname, oname, info) in list(tv["concrete_failures"]):
        cand = [(r, o, res) for (r, o, res) in inconclusive if o.case == cname and o.name == oname and o.path_id == info.get("_path")]
        if not cand or not info.get("_vals"):
            continue
        r, o, res = cand[0]
        ok, info2 = replay_obligation(harness, r, o, info["_vals"], seed)
        if not ok:
            continue
        rec = dict(property=pid, case=o.case, obligation=o.name, kind=o.kind, choices=o.choices, valuation=info["_vals"],
                   observed=info2, found_by="concrete sampling of an obligation the solver left undecided", note=o.note)
        h = hashlib.sha256(json.dumps([o.case, o.name], sort_keys=True).encode()).hexdigest()[:10]
        path = os.path.join(VERIF, "replays", f"{pid}-{h}.json")
        with open(path, "w") as f:
            json.dump(rec, f, indent=1, default=str)
        k = match_known(findings, pid, o.case, o.name)
        if k is not None:
            known_hits.append((k, o, path))
        else:
            violations.append((o, path, info2))
        inconclusive = [x for x in inconclusive if x[1] is not o]
        tv["concrete_failures"].remove((cname, oname, info))
        sat_obls.append((r, o))
    for (_, _, info) in tv["concrete_failures"]:
        for k_ in ("_vals", "_choices", "_path"):
            info.pop(k_, None)
    # a concrete failure of a claim that the solver discharged = model/real-code disagreement
    viol_cases = {o.case for (_, o) in sat_obls}
    for (cname, oname, info) in tv["concrete_failures"]:
        if cname in viol_cases:
            continue  # explained by a counter-example already found in this case (e.g. a failed linking lemma)
        if not any(o.case == cname and o.name == oname for (_, o) in sat_obls):
            problems.append(f"claim {cname}/{oname} fails concretely but was discharged symbolically: {info}")

    # ---- verdict --------------------------------------------------------------------------------
    seen_known = set()
    for k, o, path in known_hits:
        if k["id"] not in seen_known:
            seen_known.add(k["id"])
            print(f"KNOWN-FINDING: property={pid} {k['id']}: {k['what']} (e.g. {o.case}/{o.name}, replay={path})", flush=True)
    for n, (o, path, info) in enumerate(violations):
        if n < 8:
            print(f"VIOLATION property={pid} replay={path}", flush=True)
            log(f"    obligation {o.case}/{o.name} ({o.kind}) observed={info} note={o.note}")
    if len(violations) > 8:
        log(f"[{pid}] ... {len(violations) - 8} more violations (replay files written)")
    for (r, o, res) in inconclusive:
        log(f"[{pid}] INCONCLUSIVE {o.case}/{o.name}: {res.status} {res.detail[:100]} ({res.time:.1f}s)")
    for (o, info) in unreproduced:
        log(f"[{pid}] UNREPRODUCED model for {o.case}/{o.name}: {info}")
    for p in problems:
        log(f"[{pid}] HARNESS-PROBLEM {p}")

    slowest = sorted([o for r in runs for o in r.obligations if o.result is not None], key=lambda o: -o.result.time)[:4]
    log(f"[{pid}] slowest queries: " + "; ".join(f"{o.case}/{o.name[:50]} {o.result.time:.1f}s" for o in slowest))
    n_paths = sum(len(r.paths) for r in runs)
    n_dec = sum(r.decisions for r in runs)
    all_obls = [o for r in runs for o in r.obligations]
    samples = []
    for o in all_obls[:: max(1, len(all_obls) // 6)][:6]:
        samples.append(dict(case=o.case, obligation=o.name, kind=o.kind, path=o.path_id,
                            claim=str(z3.simplify(o.claim))[:300] if o.claim is not None else None,
                            result=o.result.status if o.result else None, solver=o.result.by if o.result else None,
                            time_s=round(o.result.time, 3) if o.result else None))
    n_inline = sum(getattr(r, "inline_true", 0) for r in runs)
    wall = time.time() - t_start
    code = EXIT_OK
    if violations:
        code = EXIT_VIOLATION
    elif inconclusive or unreproduced or problems:
        code = EXIT_INCONCLUSIVE
    ev = dict(
        property_id=pid,
        tier=tier,
        seed=int(seed),
        level="model_checking",
        coverage=dict(
            states=max(1, n_paths),
            transitions=max(1, n_dec + n_paths),
            traces_validated_against_impl=tv["validated"] + tv["points"] + len(violations) + len(known_hits),  # claim-level agreements + whole concrete runs of the real code matched to a symbolic path + replays
            samples=samples or [dict(case=r.case.name, claims_true_on_path=getattr(r, "inline_samples", [])[:3], paths=len(r.paths)) for r in runs[:3]] or [dict(note="no obligations")],
            obligations=len(all_obls) + n_inline,
            discharged=discharged + discharged_pre + n_inline,
            obligations_decided_by_solver_query=discharged + discharged_pre,
            claims_that_are_concrete_facts_of_a_solver_explored_path=n_inline,
            concrete_claim_samples=[x for r in runs for x in getattr(r, "inline_samples", [])][:6],
            sat_replayed=len(violations) + len(known_hits),
            known_findings=sorted(seen_known),
            inconclusive=len(inconclusive) + len(unreproduced),
            reachability_witnesses=sum(1 for v in reach_ok.values() for s in v if s == "sat"),
            definedness=defined_stats,
            cases=[dict(name=r.case.name, paths=len(r.paths), obligations=len(r.obligations), explore_s=round(r.time, 2),
                        path_status={s: sum(1 for p in r.paths if p.status == s) for s in set(p.status for p in r.paths)}) for r in runs],
            functions_encoded=source_fingerprint(getattr(harness, "ENCODED", [])),
            numpy_api_used=sorted(set().union(*[r.np_used for r in runs])) if runs else [],
            bounds=getattr(harness, "BOUNDS", {}).get(tier, getattr(harness, "BOUNDS", {})),
            outside_claim=getattr(harness, "OUTSIDE", []),
            solver="z3 " + z3.get_version_string() + (" + /usr/bin/z3 4.8.12 cross-check" if second else ""),
            solver_time_s=round(solver_time + solver_time_pre, 2),
            solve_wall_s=round(t_solve, 2),
            explore_wall_s=round(t_explore, 2),
            queries=len(results),
            found_by_specialisation=hunted,
            sat_not_replayed_after_enough_confirmed=skipped_replays,
            translator_validation=dict(points=tv["points"], terms_compared=tv["validated"], mismatches=len(tv["mismatches"])),
            problems=problems,
            exit_code=code,
        ),
        assumptions=list(getattr(harness, "ASSUMPTIONS", [])),
        wall_s=round(wall, 2),
        violations=len(violations),
    )
    evdir = os.environ.get("VERIF_EVIDENCE_DIR") or os.path.join(VERIF, "evidence")  # (override: ad-hoc runs of tools/check_tree.sh)
    os.makedirs(evdir, exist_ok=True)
    with open(os.path.join(evdir, f"{pid}.json"), "w") as f:
        json.dump(ev, f, indent=1, default=str)
    batch.cleanup()
    log(f"[{pid}] tier={tier} obligations={len(all_obls)} discharged={discharged + discharged_pre} known={len(known_hits)} violations={len(violations)} "
        f"inconclusive={len(inconclusive)+len(unreproduced)} problems={len(problems)} wall={wall:.1f}s exit={code}")
    return code


_HUNT_VALS = {}


def setattr_safe(o, vals):
    _HUNT_VALS[id(o)] = vals


def replay_obligation(harness, r, o, vals, seed):
    """Re-run the harness body on the unpatched code at the model's valuation; the named
    obligation must fail there."""
    Hc, last = None, None
    for attempt in range(4):
        try:
            # (a harness may ask for an exact replay - no tie-breaking perturbation of the weights - by putting
            # "_exact" into the valuation in its `concretise` hook)
            jit = 0.0 if (vals.get("_exact") and attempt == 0) else 1e-13 * 100**attempt
            Hc = run_concrete(harness, r.case, {k: v for k, v in vals.items() if k != "_exact"}, o.choices, seed=seed + attempt, ranges=r.ranges, jitter=jit)
            break
        except ConcreteReject as e:
            last = e
            if "exactly singular" not in str(e):
                return False, f"valuation rejected by harness assumptions: {e}"
    if Hc is None:
        return False, f"valuation rejected: {last}"
    if o.kind == "defined":
        bad = [n for n, v in Hc.results.items() if v["ok"] is False or (v.get("err") is not None and math.isnan(v["err"]))]
        if Hc.exception is not None:
            return True, f"exception {type(Hc.exception).__name__}: {Hc.exception}"
        return (len(bad) > 0), f"failing claims {bad[:4]}"
    if o.name.startswith("no-exception:") or o.name.startswith("unwind-bound:"):
        if Hc.exception is not None:
            return True, f"exception {type(Hc.exception).__name__}: {Hc.exception}"
        return False, "no exception on the real code"
    if o.confirm_by:
        # a linking lemma between the code's intermediate values and the oracle: its violation is
        # confirmed on the real code through the concrete claims that depend on it
        bad = [n for n, v in Hc.results.items() if v["ok"] is False and any(k in n for k in o.confirm_by)]
        if bad:
            return True, dict(failing_claims=bad[:4], rel_err=Hc.results[bad[0]]["err"])
        return False, "no dependent claim fails concretely"
    res = Hc.results.get(o.name)
    if res is None:
        if Hc.exception is not None:
            return False, f"concrete run raised {type(Hc.exception).__name__}: {Hc.exception} before reaching the claim"
        return False, "claim not reached in the concrete run (different path)"
    if res["ok"]:
        return False, f"claim holds concretely (err={res['err']})"
    return True, dict(lhs=str(res["lhs"]), rhs=str(res["rhs"]), rel_err=res["err"])


def translator_validation(harness, runs, seed, n=3, log=print):
    """Serval-style: at seeded concrete points, the symbolic terms evaluated at the point must
    agree with what the real (unpatched) code computes there."""
    out = dict(points=0, validated=0, mismatches=[], concrete_failures=[])
    rng = np.random.default_rng(seed + 1)
    for r in runs:
        if not r.paths:
            continue
        obls_by_path = {}
        for o in r.obligations:
            obls_by_path.setdefault(o.path_id, []).append(o)
        done = 0
        tries = 0
        while done < n and tries < 10 * n:
            tries += 1
            vals = sample_valuation(r, rng)
            # follow choices of a random path
            p = r.paths[int(rng.integers(len(r.paths)))]
            if p.status == "infeasible":
                continue
            try:
                Hc = run_concrete(harness, r.case, vals, p.choices, seed=seed, ranges=r.ranges)
            except ConcreteReject:
                continue
            vals_used = dict(Hc.used)
            # which symbolic path does this point follow?
            match = None
            for q in r.paths:
                if q.status == "infeasible" or q.choices != Hc.choices:
                    continue
                lu = next((o.lu_log for o in obls_by_path.get(q.pid, []) if o.lu_log), [])
                env = feval.Env(r.ctx, vals_used, lu, rng)
                if path_matches(env, q.pc, q.path_assume):
                    match = (q, env)
                    break
            if match is None:
                continue
            q, env = match
            done += 1
            out["points"] += 1
            if q.status == "exception" and Hc.exception is None:
                out["mismatches"].append((r.case.name, f"path{q.pid}", "symbolic path raises, concrete run does not"))
            # claims that were concrete facts of the symbolic path (no obligation) must hold in the real run too
            named = {o.name for o in obls_by_path.get(q.pid, [])}
            for cname_, cres_ in Hc.results.items():
                if cres_.get("ok") is False and cname_ not in named:
                    out["concrete_failures"].append((r.case.name, cname_, dict(vals=None, err=cres_.get("err"), note="a concrete fact of the symbolic path")))
            if Hc.exception is not None and q.status != "exception":
                out["mismatches"].append((r.case.name, f"path{q.pid}", f"concrete run raises {type(Hc.exception).__name__}: {Hc.exception}, symbolic path does not"))
            for o in obls_by_path.get(q.pid, []):
                cres = Hc.results.get(o.name)
                if cres is None:
                    if o.kind not in ("unreachable", "lemma"):
                        why = f" (concrete run raised {type(Hc.exception).__name__}: {Hc.exception})" if Hc.exception is not None else ""
                        out["mismatches"].append((r.case.name, o.name, "claim not reached concretely" + why))
                    continue
                if cres["ok"] is False:
                    out["concrete_failures"].append((r.case.name, o.name, dict(vals=None, err=cres["err"], _vals=dict(vals_used), _choices=dict(Hc.choices), _path=q.pid)))
                if o.kind == "eq" and cres.get("lhs") is None:
                    continue
                if o.kind == "eq":
                    try:
                        env2 = feval.Env(r.ctx, vals_used, o.lu_log, rng)
                        l = env2.eval_sc(o.lhs)
                        rr = env2.eval_sc(o.rhs)
                    except (feval.Reject, KeyError) as e:
                        continue
                    sc = max(1.0, abs(l), abs(rr), abs(cres["lhs"]), abs(cres["rhs"]))
                    if abs(l - cres["lhs"]) > 1e-6 * sc or abs(rr - cres["rhs"]) > 1e-6 * sc:
                        out["mismatches"].append((r.case.name, o.name, f"sym lhs={l} rhs={rr} vs real lhs={cres['lhs']} rhs={cres['rhs']}"))
                    else:
                        out["validated"] += 1
                elif o.kind == "bool":
                    try:
                        env2 = feval.Env(r.ctx, vals_used, o.lu_log, rng)
                        b = bool(env2.eval(o.claim))
                    except (feval.Reject, KeyError, NotImplementedError):
                        continue
                    if b != bool(cres["ok"]):
                        # boolean claims at tolerance boundaries are not compared strictly
                        out["mismatches"].append((r.case.name, o.name, f"sym claim={b} vs real={cres['ok']}"))
                    else:
                        out["validated"] += 1
    return out


def replay_file(harness, path, seed=0):
    with open(path) as f:
        rec = json.load(f)
    case = next((c for t in ("quick", "thorough") for c in harness.cases(t, seed) if c.name == rec["case"]), None)
    if case is None:
        print(f"replay: case {rec['case']} not found")
        return EXIT_INCONCLUSIVE
    Hc = run_concrete(harness, case, rec["valuation"], rec["choices"], seed=seed)
    res = Hc.results.get(rec["obligation"])
    print(f"replay {rec['case']}/{rec['obligation']}: result={res} exception={Hc.exception!r}")
    failed = (res is not None and not res["ok"]) or (res is None and Hc.exception is not None)
    if failed:
        print(f"VIOLATION property={harness.ID} replay={path}")
        return EXIT_VIOLATION
    return EXIT_OK
