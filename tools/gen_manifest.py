#!/usr/bin/env python3
"""Regenerates /verif/MANIFEST.json from the table below (kept valid at all times)."""
import json, os
HERE = os.path.dirname(os.path.dirname(os.path.abspath(__file__)))
TECH = "bounded symbolic execution of the real Python code (symx facades over numpy/scipy) + z3 SMT (QF_NRA / QF_FP), counter-examples replayed on the unpatched code"
CLAIMED = {
 "C03": dict(text="Every identity is decided by z3 for all positive cell areas / edge weights, all link phases and all fields on each mesh topology of the family; 'unsat' within the stated bounds, a replayed counter-example otherwise.",
             note="exact real arithmetic; mesh topologies of the family (<= 9 sites, degree <= 6); scipy sparse assembly modelled (duplicates summed, assignment overwrites); z3 is trusted", ref="5/C03"),
 "C04": dict(text="Gauge covariance of the real gradient/Laplacian builders and of the in-place refresh path (entry-wise), supercurrent invariance (edge-wise) and covariance of the real per-site update kernel are decided by z3 for arbitrary gauge functions, link phases, weights and fields on each mesh of the family; constant shifts of A on an integer-coordinate mesh.",
             note="exact reals; phases as unit-circle pairs (integer-coefficient phase algebra); one-step covariance is compositional (operator covariance + kernel covariance + supercurrent invariance; LU solve is a function of its rhs); whole-run agreement of two runs from psi=1 under shifted A is not implied and not claimed", ref="5/C04"),
 "C10": dict(text="For fully symbolic histories of potentials (bounded length) the real set_link_exponents build+refresh path is compared entry-wise and pattern-wise with a fresh build, for no pinned sites / pinned terminals / pinning disabled; the real TDGLSolver.update is run with scripted symbolic potentials (with and without screening) and the operators are compared with a rebuild at every moment of use. Includes the sparse-matrix dtype (complex vs real) casting semantics.",
             note="history length <= 3 (+ induction on the refreshed state being a function of structure and last potential); scipy __setitem__ modelled (overwrite / insert / cast to matrix dtype); psi-update and Poisson solve opaque at step level", ref="5/C10"),
 "C02": dict(text="The real per-site update kernel is executed symbolically; its own intermediate w, z are proven equal to the documented ones and then generalised to arbitrary complex W, Z, for which z3 decides: psi' + z|psi'|^2 = w, X = |psi'|^2 >= 0, quad-2, quad-root, physical branch, positive denominator, refusal <=> negative discriminant, 'solution exists => not refused'; the retry loop answers with the kernel's result for the time step it reports.",
             note="exact reals; n <= 3 sites (per-site algebra is site independent); exp(-i mu dt) an arbitrary unit complex; opaque covariant Laplacian action; float rounding near disc = 0 and overflow outside", ref="5/C02"),
 "C06": dict(text="Pinned rows are identity rows after build and after every in-place refresh, all other rows equal the unpinned operator, pinning disabled gives the unpinned operator; one inductive step of the real TDGLSolver.__init__/update/adaptive_euler_step/solve_for_psi_squared from an arbitrary state keeps psi = v on every terminal site for v = 0, symbolic |v| <= 1, and leaves terminal sites on the generic update for v = None.",
             note="real device meshes bar2/bar3 with symbolic weights; one inductive step; Poisson solve opaque; exact reals", ref="5/C06"),
 "C12": dict(text="One inductive step of the real TDGLSolver.update/adaptive_euler_step from an arbitrary solver state (arbitrary proposed dt in (0, dt_max], arbitrary history of max|d|psi|^2|, symbolic dt_init <= dt_max and multiplier) for steps inside, at the edge of and after the window and every scripted number of kernel refusals: used dt = proposed * mult^k, 0 < dt <= dt_max, next proposal = min((dt + dt_init/delta)/2, dt_max) with the 1e-10 floor, retry exhaustion raises and is never answered, adaptivity off keeps dt_init; plus a multi-step run in the thorough tier.",
             note="psi-kernel and Poisson solve opaque (arbitrary |psi'|^2, scripted refusals); exact reals; window <= 5, retries <= 3; lenient about the documented off-by-one of the retry count", ref="5/C12"),
 "C05": dict(text="The real Runner.run/_run_stage, RunningState, DataHandler (in-memory HDF5 tree), DynamicsData.from_hdf5 and Solution.times are executed with symbolic step sizes, solve time and thermalisation time for every save interval 1..N+2, 0/2/3 probes and thermalisation on/off; every path (stopping pattern) is checked against an executable specification: frame steps 0,k,2k,..,final; frame (s,t) holds exactly s updates and t = sum of the first s steps; one per-step record per step in order; stop at the first step with time >= solve time; thermalisation unrecorded; Solution.times = frame times.",
             note="N <= 4 steps per stage (quick) / 7 (thorough); update function opaque (arbitrary step sizes in [1/2,1]); HDF5, tqdm, logging stubbed; real-valued clocks", ref="5/C05"),
 "C13": dict(text="Kernel: the Python source of the numba Coulomb kernel on symbolic currents/areas/coordinates equals the direct double sum and overwrites every cell of an 'uninitialised' buffer. One Polyak iteration of the real get_induced_vector_potential + get_quantity_on_site with symbolic currents, previous iterate, velocity, alpha, beta: new iterate, velocity and the returned error follow the documented formulas (incl. the 1e-20 floor). Loop contract of the real update: returns only after an iteration with error < tolerance, returns that iterate, raises when max_iterations_per_step is exceeded, screening off returns the zero potential untouched.",
             note="kernel via numba .py_func (compiled code outside); <= 4 sites x 3 edges with symbolic coordinates; Polyak iteration on T2/F5; loop with <= 3 iterations and opaque physics; convergence itself not claimed", ref="5/C13"),
 "C17": dict(text="From psi=1, mu=0, A=0, epsilon=1 one step of the real __init__/update/adaptive_euler_step/solve_for_psi_squared/solve_for_observables (and, with screening, the real Polyak iteration + kernel source) on meshes with symbolic weights returns exactly psi'=1, mu'=0, J_s=J_n=0, A_induced=0, records max|d|psi|^2| = 0 and moves the adaptive step to dt_max; post-state = pre-state, so stationarity at every step follows by induction.",
             note="devices bar0, bar2 (unpinned unbiased terminals), holed, tee3; gamma symbolic without screening / enumerated with screening; LU contract with zero-rhs clause; exact reals (ulp-level noise amplification on fine meshes is outside the claim)", ref="5/C17"),
 "C16": dict(text="The real Parameter/CompositeParameter classes are executed on every expression tree within the bound (5 operators, leaves 2-D / 3-D / time-dependent parameter, int, float, both operand orders) with uninterpreted leaf functions and symbolic points and time; value = op(values of the operands) at scalar and array arguments (independent recursive oracle), time dependence = OR of operands, structural equality, cache clearing empties every cache, pickle round trip preserves equality, time dependence and values.",
             note="depth <= 2 (quick) / sampled depth 3 (thorough), inductive per node; ** with symbolic exponent uninterpreted; sha1 cache key modelled by term identity; trees that are identically zero in a divisor are excluded; mixed 2-D/3-D leaves are not evaluated (no common signature)", ref="5/C16"),
 "C15": dict(text="The real TDGLSolver.solve / DataHandler / Runner / Solution assembly run on an in-memory file system with symbolic step sizes and stop times and a forked crash step, crash site (update / frame writer), exception kind, pause answer, explicit path vs. temp dir and set of pre-existing files: afterwards all handles are closed, no .tmp file or temp dir remains, pre-existing files are untouched, the fresh serial name is chosen, the file holds exactly the written frames with intact bookkeeping, errors propagate, cancellation returns a solution (None when nothing was recorded) that points at the fresh file.  Counter-examples are replayed with the real h5py on real files.",
             note="N <= 2 steps per stage (quick) / 5 (thorough); HDF5/FS model (exclusive create, handle tracking, mutation log); writer faults injected at entry of save_time_step only; KeyboardInterrupt while writing the final frame may escape (not demanded otherwise)", ref="5/C15"),
}
NA = {
}
BUILDING = "check not built yet in this round (planned, see DESIGN.md section 5)"
def main():
    props = [json.loads(l) for l in open(os.path.join(HERE, "properties.jsonl"))]
    checks, na = [], []
    for p in props:
        pid = p["id"]
        if pid in CLAIMED:
            c = CLAIMED[pid]
            checks.append(dict(property_id=pid, quick_cmd=f"./check {pid} --tier quick", thorough_cmd=f"./check {pid} --tier thorough",
                evidence_file=f"/verif/evidence/{pid}.json", replay_cmd_template=f"./check {pid} --replay {{path}}", engine="symx",
                level_claimed=dict(category="model_checking", text=c["text"], design_ref=c["ref"]), level_note=c["note"], technique=c.get("technique", TECH)))
        else:
            na.append(dict(property_id=pid, reason=NA.get(pid, BUILDING)))
    m = dict(version=1, setup_cmd="./setup.sh",
        hooks=dict(guard="LOGANBVH_PY_TDGL_VERIF", enable="no source hooks: the checks rebind module globals (np, sp, float, h5py ...) of the imported working-tree modules at run time", baseline_off_cmd="cd /repo && /venv/bin/python -m pytest -ra -q -p no:cacheprovider --timeout=900 --continue-on-collection-errors", source_commits=[], add_only=True),
        engines=[dict(name="symx", path="/verif/symx", serves_properties=sorted(CLAIMED), kind_free_text="forking symbolic executor for Python+NumPy over z3; obligations discharged in hard-timed solver subprocesses; translator validation and replay against the unpatched code")],
        checks=checks, not_applicable=na,
        notes="Exit codes: 0 all obligations unsat within bounds (known findings printed as KNOWN-FINDING lines); 1 replayed violation (VIOLATION line); 3 inconclusive / harness error. See DESIGN.md.")
    json.dump(m, open(os.path.join(HERE, "MANIFEST.json"), "w"), indent=1)
    print("checks:", [c["property_id"] for c in checks], "na:", len(na))
if __name__ == "__main__":
    main()
