"""Mesh family (the main bound for array kernels): concrete topology, symbolic weights.

The meshes are real `tdgl.finite_volume.Mesh` objects built by the real
`Mesh.from_triangulation` from small dyadic-rational coordinates; `symbolise` then replaces
areas / edge lengths / dual edge lengths by harness inputs (positive reals), which
over-approximates every geometric realisation of the topology."""
import os

import numpy as np

os.environ.setdefault("MPLBACKEND", "Agg")


def _jitter(seed, n, amp=0.125):
    rng = np.random.default_rng(seed)
    # multiples of 1/64 so that all coordinates are exact small dyadic rationals
    return np.round(rng.uniform(-amp, amp, size=(n, 2)) * 64) / 64


def coords(name, seed=0):
    if name == "T1":
        pts = np.array([[0, 0], [1, 0], [0.25, 0.75]], float)
        tris = [[0, 1, 2]]
    elif name == "T2":
        pts = np.array([[0, 0], [1, 0], [1, 1], [0, 0.875]], float)
        tris = [[0, 1, 2], [0, 2, 3]]
    elif name == "F5":
        pts = np.array([[0, 0], [1, 0], [1, 1], [0, 1], [0.5, 0.4375]], float)
        tris = [[0, 1, 4], [1, 2, 4], [2, 3, 4], [3, 0, 4]]
    elif name == "F7":
        ang = np.arange(6) * np.pi / 3
        ring = np.round(np.stack([np.cos(ang), np.sin(ang)], axis=1) * 64) / 64
        pts = np.concatenate([ring, [[0.0625, -0.03125]]])
        tris = [[i, (i + 1) % 6, 6] for i in range(6)]
    elif name == "G9":
        base = np.array([[x, y] for x in range(3) for y in range(3)], float)
        pts = base + _jitter(seed + 11, 9)
        from scipy.spatial import Delaunay

        tris = Delaunay(pts).simplices.tolist()
    elif name == "R8":
        outer = np.array([[0, 0], [3, 0], [3, 3], [0, 3]], float)
        inner = np.array([[1, 1], [2, 1], [2, 2], [1, 2]], float) + _jitter(seed + 5, 4, 0.0625)
        pts = np.concatenate([outer, inner])
        tris = []
        for i in range(4):
            j = (i + 1) % 4
            tris.append([i, j, 4 + i])
            tris.append([j, 4 + j, 4 + i])
    else:
        raise KeyError(name)
    if name not in ("G9", "R8"):
        pts = pts + 0  # deterministic small meshes are not jittered (topology is what matters)
    return pts, np.array(tris, dtype=np.int64)


_MESH_CACHE = {}


def get(name, seed=0):
    """Fresh copy of a family mesh ('T2', 'G9', ... or 'device:<kind>'); built once, outside any
    facade patch (call `warm` from harness.cases())."""
    import copy

    key = (name, seed)
    if key not in _MESH_CACHE:
        if name.startswith("device:"):
            _MESH_CACHE[key] = make_device(name.split(":", 1)[1], seed).mesh
        else:
            _MESH_CACHE[key] = make_mesh(name, seed)
    return copy.deepcopy(_MESH_CACHE[key])


def get_device(kind, seed=0):
    """kind 'X' or 'X:remeshed' (the same Device object meshed finely, queried, then meshed again
    coarsely: whatever the device caches from the first mesh must not leak into the second)"""
    import copy

    key = ("dev", kind, seed)
    if key not in _MESH_CACHE:
        if kind.endswith(":remeshed"):
            dev = make_device(kind.split(":")[0], seed)
            dev.make_mesh(max_edge_length=0.5, smooth=10)
            dev.terminal_info()
            dev.boundary_sites()
            _ = dev.triangulation
            dev.make_mesh(max_edge_length=0, min_points=None)
            _MESH_CACHE[key] = dev
        else:
            _MESH_CACHE[key] = make_device(kind, seed)
    return copy.deepcopy(_MESH_CACHE[key])


def warm(names, seed=0):
    for n in names:
        get(n, seed)


def make_mesh(name, seed=0):
    from tdgl.finite_volume.mesh import Mesh

    pts, tris = coords(name, seed)
    # make all triangles counter-clockwise
    for t in tris:
        a, b, c = pts[t]
        if (b[0] - a[0]) * (c[1] - a[1]) - (b[1] - a[1]) * (c[0] - a[0]) < 0:
            t[1], t[2] = t[2], t[1]
    return Mesh.from_triangulation(pts, tris)


def symbolise(mesh, H, lengths=True, prefix="", length_band=None):
    """Overwrite the weight arrays of a real mesh by harness inputs (positive reals)."""
    em = mesh.edge_mesh
    ns, ne = len(mesh.sites), len(em.edges)
    # weights range over [1e-3, 1e3] (dimensionless units of xi): keeps counter-example models
    # replayable in double precision
    W = dict(lo=1e-3, hi=1e3, jitter=True)
    mesh.areas = H.reals(prefix + "a", ns, **W)
    if lengths and length_band is not None:
        # symbolic lengths within a band around the geometric ones (keeps length comparisons,
        # e.g. the ordering of terminals, mostly decided while the lengths stay symbolic)
        geo = [float(x) for x in em.edge_lengths]
        em.edge_lengths = H.array([H.real(f"{prefix}e{i}", lo=(1 - length_band) * geo[i], hi=(1 + length_band) * geo[i], jitter=True) for i in range(ne)])
    elif lengths:
        em.edge_lengths = H.reals(prefix + "e", ne, **W)
    em.dual_edge_lengths = H.reals(prefix + "s", ne, **W)
    return mesh


_DEVICE_CACHE = {}


def make_device(kind, seed=0):
    """Tiny real devices meshed by the real Device.make_mesh (Triangle): used for terminals."""
    import tdgl
    from tdgl.geometry import box

    key = (kind, seed)
    shift = None
    if kind.endswith(":shifted"):  # the same outline drawn far from the origin
        kind, shift = kind.split(":")[0], np.array([12.0, -7.0])
    layer = tdgl.Layer(coherence_length=1.0, london_lambda=2.0, thickness=0.1, gamma=1.0)
    film = tdgl.Polygon("film", points=np.array([[0, 0], [2, 0], [2, 1], [0, 1]], float))
    if kind == "bar2":
        terms = [
            tdgl.Polygon("source", points=box(0.2, 1.2, center=(0, 0.5), points=8)),
            tdgl.Polygon("drain", points=box(0.2, 1.2, center=(2, 0.5), points=8)),
        ]
        probes = None
    elif kind == "bar2p":
        terms = [
            tdgl.Polygon("source", points=box(0.2, 1.2, center=(0, 0.5), points=8)),
            tdgl.Polygon("drain", points=box(0.2, 1.2, center=(2, 0.5), points=8)),
        ]
        probes = [(0.5, 0.5), (1.5, 0.5)]
    elif kind == "bar3":
        film = tdgl.Polygon("film", points=np.array([[0, 0], [2, 0], [2, 2], [0, 2]], float))
        terms = [
            tdgl.Polygon("t1", points=box(0.2, 2.2, center=(0, 1), points=8)),
            tdgl.Polygon("t2", points=box(0.2, 2.2, center=(2, 1), points=8)),
            tdgl.Polygon("t3", points=box(2.2, 0.2, center=(1, 2), points=8)),
        ]
        probes = None
    elif kind in ("tee3", "cross4"):
        film = tdgl.Polygon("film", points=np.array([[0, 0], [1, 0], [2, 0], [3, 0], [3, 1], [3, 2], [2, 2], [1, 2], [0, 2], [0, 1]], float))
        terms = [
            tdgl.Polygon("left", points=box(0.2, 2.2, center=(0, 1), points=8)),
            tdgl.Polygon("right", points=box(0.2, 2.2, center=(3, 1), points=8)),
            tdgl.Polygon("top", points=box(1.2, 0.2, center=(1.5, 2), points=8)),
        ]
        if kind == "cross4":
            terms.append(tdgl.Polygon("bottom", points=box(1.2, 0.2, center=(1.5, 0), points=8)))
        probes = None
    elif kind == "holed":
        film = tdgl.Polygon("film", points=np.array([[0, 0], [1.5, 0], [3, 0], [3, 1.5], [3, 3], [1.5, 3], [0, 3], [0, 1.5]], float))
        holes = [tdgl.Polygon("hole", points=np.array([[1, 1], [2, 1], [2, 2], [1, 2]], float))]
        terms = []
        probes = None
    elif kind == "bar0":
        terms = []
        probes = None
    else:
        raise KeyError(kind)
    holes = locals().get("holes")
    if shift is not None:
        mv = lambda poly: tdgl.Polygon(poly.name, points=np.asarray(poly.points) + shift)
        film, holes, terms = mv(film), [mv(h) for h in holes or []], [mv(t) for t in terms]
        probes = None if probes is None else [tuple(np.asarray(q) + shift) for q in probes]
    dev = tdgl.Device("d", layer=layer, film=film, holes=holes, terminals=terms, probe_points=probes)
    dev.make_mesh(max_edge_length=0, min_points=None)
    return dev
