"""Solver subprocess: parse one SMT-LIB2 file, decide it, print one JSON line."""
import json
import sys
import time

import z3


def value_to_py(v):
    if z3.is_rational_value(v):
        return f"{v.numerator_as_long()}/{v.denominator_as_long()}"
    if z3.is_algebraic_value(v):
        a = v.approx(30)
        return f"{a.numerator_as_long()}/{a.denominator_as_long()}"
    if z3.is_true(v):
        return True
    if z3.is_false(v):
        return False
    if z3.is_int_value(v):
        return v.as_long()
    if z3.is_fp(v):
        try:
            import struct

            s = z3.simplify(z3.fpToIEEEBV(v))
            return {"fp_bits": s.as_long(), "float": struct.unpack("<d", struct.pack("<Q", s.as_long()))[0]}
        except Exception:
            return str(v)
    return str(v)


def solve_one(path, timeout_ms, tactic=""):
    t0 = time.time()
    fmls = z3.parse_smt2_file(path)
    s = z3.Tactic(tactic).solver() if tactic else z3.Solver()
    s.set("timeout", timeout_ms)
    s.add(fmls)
    r = str(s.check())
    out = {"status": r, "time": time.time() - t0}
    if r == "sat":
        m = s.model()
        out["model"] = {d.name(): value_to_py(m[d]) for d in m.decls() if d.arity() == 0}
    elif r == "unknown":
        out["detail"] = s.reason_unknown()
    return out


def main_chunk(listfile, timeout_ms):
    """Chunk mode: one JSON line per query, flushed as soon as it is decided."""
    for line in open(listfile):
        idx, path = line.strip().split("\t")
        try:
            out = solve_one(path, timeout_ms)
        except Exception as e:  # noqa
            out = {"status": "error", "detail": f"{type(e).__name__}: {e}", "time": 0.0}
        out["idx"] = int(idx)
        print(json.dumps(out), flush=True)


def main():
    if sys.argv[1] == "--chunk":
        return main_chunk(sys.argv[2], int(sys.argv[3]))
    path, timeout_ms = sys.argv[1], int(sys.argv[2])
    tactic = sys.argv[3] if len(sys.argv) > 3 else ""
    t0 = time.time()
    fmls = z3.parse_smt2_file(path)
    if tactic:
        s = z3.Tactic(tactic).solver()
    else:
        s = z3.Solver()
    s.set("timeout", timeout_ms)
    s.add(fmls)
    r = str(s.check())
    out = {"status": r, "time": time.time() - t0}
    if r == "sat":
        m = s.model()
        out["model"] = {d.name(): value_to_py(m[d]) for d in m.decls() if d.arity() == 0}
    elif r == "unknown":
        out["detail"] = s.reason_unknown()
    print(json.dumps(out))


if __name__ == "__main__":
    main()
