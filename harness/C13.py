"""C13 - Screening returns a self-consistent induced vector potential or fails.

Level 1 (kernel): the Python source of the numba Coulomb kernel is executed on symbolic
currents, areas, site and edge-centre coordinates and an output buffer pre-filled with
"uninitialised" symbols; it must equal the direct double sum and overwrite the whole buffer.
Level 2 (one Polyak iteration): the real `TDGLSolver.get_induced_vector_potential` and
`Mesh.get_quantity_on_site` on a small mesh with symbolic currents, previous iterate, velocity,
step size alpha and drag beta: the new iterate, the velocity and the value returned as error
follow the documented formulas (error = max_e |K[J] - A_prev|_e / max(|A_new|_e, 1e-20)).
Level 3 (loop contract): the real `TDGLSolver.update` with a scripted induced-potential stub:
the loop returns only after a call whose error is below the tolerance, returns the iterate of
that call, raises when max_iterations_per_step is exceeded, and with screening off returns
the induced potential unchanged (zero from the default start)."""
import numpy as np

from symx import engine, meshes
from symx.engine import Case

from . import common as K
from . import solver_setup as S

ID = "C13"
ENCODED = [
    "tdgl.solver.screening:get_A_induced_numba",
    "tdgl.finite_volume.mesh:Mesh.get_quantity_on_site",
    "tdgl.solver.solver:TDGLSolver.get_induced_vector_potential",
    "tdgl.solver.solver:TDGLSolver.update",
]
BOUNDS = {
    "quick": dict(kernel="3 sites x 2 edge centres, symbolic coordinates", polyak_mesh="T2 (4 sites, 5 edges)", loop_iterations="max_iterations_per_step in {0,1,2}"),
    "thorough": dict(kernel="4 sites x 3 edge centres, symbolic coordinates", polyak_mesh="T2, F5", loop_iterations="max_iterations_per_step in {0,1,2,3}"),
}
ASSUMPTIONS = [
    "kernel through its Python source (numba .py_func); edge centres never coincide with sites (distance > 0)",
    "currents, areas, previous iterate and velocity arbitrary reals; alpha > 0, beta in (0,1], tolerance > 0 symbolic",
    "loop level: psi-kernel, Poisson solve and the induced-potential routine opaque (arbitrary outputs)",
    "convergence of the iteration itself is not claimed, only the exit contract",
]
OUTSIDE = ["compiled numba code vs. its Python source (fastmath re-association)", "cupy kernel", "that the iteration converges"]
MERGE = True
TV_SAMPLES = {"quick": 2, "thorough": 2}


def patch_spec(case):
    return S.patch_spec(extra_modules=["tdgl.solver.options"])


def cases(tier, seed):
    out = [Case("kernel:3x2", kind="kernel", ns=3, ne=2, seed=seed)]
    if tier == "thorough":
        out.append(Case("kernel:4x3", kind="kernel", ns=4, ne=3, seed=seed))
    ms = ["T2"] if tier == "quick" else ["T2", "F5"]
    meshes.warm(ms, seed)
    for m in ms:
        out.append(Case(f"polyak:{m}:first", kind="polyak", mesh=m, first=True, seed=seed))
        out.append(Case(f"polyak:{m}:later", kind="polyak", mesh=m, first=False, seed=seed))
    meshes.get_device("bar0", seed)
    out.append(Case("polyak:two-solvers-one-mesh", kind="shared", seed=seed))
    for mi in ([0, 1, 2] if tier == "quick" else [0, 1, 2, 3]):
        out.append(Case(f"loop:max_iter={mi}", kind="loop", max_iter=mi, seed=seed))
    out.append(Case("loop:screening-off", kind="off", seed=seed))
    return out


def body(H, case):
    return dict(kernel=body_kernel, polyak=body_polyak, loop=body_loop, off=body_off, shared=body_shared)[case.kind](H, case)


def body_kernel(H, case):
    import tdgl.solver.screening as scr

    ns, ne = case.ns, case.ne
    Jx = H.reals2("J", ns, 2, lo=-3.0, hi=3.0)
    areas = H.reals("a", ns, pos=True)
    # sites near (j, 0), edge centres near (i + 1/2, 1): never coincide
    sites = H.array2([[H.real(f"sx{j}", lo=j - 0.2, hi=j + 0.2), H.real(f"sy{j}", lo=-0.2, hi=0.2)] for j in range(ns)])
    cent = H.array2([[H.real(f"cx{i}", lo=i + 0.3, hi=i + 0.7), H.real(f"cy{i}", lo=0.8, hi=1.2)] for i in range(ne)])
    if H.mode == "sym":
        from symx import arr

        out = arr.empty((ne, 2), dtype=float)
        uninit = [str(v.re) for v in out.data.ravel()]
        getattr(scr.get_A_induced_numba, "py_func", scr.get_A_induced_numba)(Jx, areas, sites, cent, out)
    else:
        out = np.full((ne, 2), np.nan)
        scr.get_A_induced_numba(np.ascontiguousarray(Jx), areas, np.ascontiguousarray(sites), np.ascontiguousarray(cent), out)
        uninit = []
    for i in range(ne):
        for k in range(2):
            ref = 0.0
            for j in range(ns):
                dx = K.at(cent, i, 0) - K.at(sites, j, 0)
                dy = K.at(cent, i, 1) - K.at(sites, j, 1)
                ref = ref + K.at(Jx, j, k) * K.at(areas, j) / H.sqrt(dx * dx + dy * dy)
            H.prove_eq(f"kernel[{i},{k}] = sum_j K_j a_j / |r_i - r_j|", K.at(out, i, k), ref)
    if H.mode == "sym":
        import z3

        from symx.engine import _vars_of

        left = set()
        for v in out.data.ravel():
            left |= {n for n in _vars_of(v.re, {}) if n.startswith("uninit!")}
        H.prove("output buffer fully overwritten (no uninitialised value survives)", len(left) == 0)
    else:
        H.prove("output buffer fully overwritten (no uninitialised value survives)", not np.isnan(out).any())


def site_average(H, mesh, q):
    """oracle for Mesh.get_quantity_on_site (vector): (1/2) * mean over incident edges of q_e * t_e"""
    em = mesh.edge_mesh
    ns = len(mesh.sites)
    acc = [[0.0, 0.0] for _ in range(ns)]
    cnt = [0] * ns
    for e, (i, j) in enumerate(em.edges):
        for s in (int(i), int(j)):
            cnt[s] += 1
            for c in range(2):
                acc[s][c] = acc[s][c] + K.at(q, e) * float(em.normalized_directions[e, c])
    return [[acc[s][c] / cnt[s] / 2 for c in range(2)] for s in range(ns)]


def body_polyak(H, case):
    from types import SimpleNamespace

    from tdgl.solver.solver import TDGLSolver

    mesh = meshes.get(case.mesh, case.seed)
    em = mesh.edge_mesh
    ns, ne = len(mesh.sites), len(em.edges)
    alpha = H.real("alpha", lo=0.0, hi=1.0, lo_open=True)
    beta = H.real("beta", lo=0.0, hi=1.0, lo_open=True)
    solver = object.__new__(TDGLSolver)
    solver.xp = __import__("tdgl.solver.solver", fromlist=["np"]).np
    solver.use_cupy = False
    solver.options = SimpleNamespace(screening_step_size=alpha, screening_step_drag=beta)
    solver.device = SimpleNamespace(mesh=mesh)
    areas = H.reals("a", ns, pos=True)
    solver.areas = areas
    solver.sites = mesh.sites * 1.0
    solver.edge_centers = em.centers * 1.0
    solver.num_edges = ne
    solver.new_A_induced = (solver.xp.empty((ne, 2), dtype=float))
    q = H.reals("q", ne, lo=-3.0, hi=3.0)
    Aprev = H.reals2("Ap", ne, 2, lo=-2.0, hi=2.0)
    if case.first:
        vals, vel = [Aprev], [0.0]
        vprev = None
    else:
        A0 = H.reals2("A0_", ne, 2, lo=-2.0, hi=2.0)
        vprev = H.reals2("v", ne, 2, lo=-1.0, hi=1.0)
        vals, vel = [A0, Aprev], [0.0, vprev]
    A_new, err = solver.get_induced_vector_potential(q, vals, vel)
    # ---- oracle ------------------------------------------------------------------------------
    Js = site_average(H, mesh, q)
    Kref = [[None, None] for _ in range(ne)]
    for i in range(ne):
        for c in range(2):
            t = 0.0
            for j in range(ns):
                dx = float(em.centers[i, 0] - mesh.sites[j, 0])
                dy = float(em.centers[i, 1] - mesh.sites[j, 1])
                t = t + Js[j][c] * K.at(areas, j) / float(np.sqrt(dx * dx + dy * dy))
            Kref[i][c] = t
    worst = None
    for i in range(ne):
        dA = [Kref[i][c] - K.at(Aprev, i, c) for c in range(2)]
        v = [alpha * dA[c] if vprev is None else (1 - beta) * K.at(vprev, i, c) + alpha * dA[c] for c in range(2)]
        An = [K.at(Aprev, i, c) + v[c] for c in range(2)]
        for c in range(2):
            H.prove_eq(f"new iterate [{i},{c}] = A_prev + (1-beta) v_prev + alpha (K[J] - A_prev)", K.at(A_new, i, c), An[c])
            H.prove_eq(f"velocity [{i},{c}]", K.at(vel[-1], i, c), v[c])
        num = H.sqrt(dA[0] * dA[0] + dA[1] * dA[1])
        den = H.sqrt(An[0] * An[0] + An[1] * An[1])
        if H.mode == "sym":
            from symx.arr import _max2

            den = _max2(den, 1e-20)
            r = num / den
            worst = r if worst is None else _max2(worst, r)
        else:
            r = num / max(den, 1e-20)
            worst = r if worst is None else max(worst, r)
    H.prove_eq("returned error = max_e |K[J] - A_prev|_e / max(|A_new|_e, 1e-20)", err, worst, timeout=120)
    H.prove("history lists are trimmed to the last two entries", len(vals) <= 2 and len(vel) <= 2)
    H.prove("the new iterate is appended to the history", vals[-1] is A_new)


def body_shared(H, case):
    """Two solvers built one after the other (real constructor, screening on) for devices that share one
    Mesh object but differ in the penetration depth: each one's Polyak iterate uses
    (mu_0 / 4 pi) K0 / A0 = 1 / (pi Lambda) of *its own* device - nothing of an earlier solver survives."""
    import math

    dev1 = S.symbolic_device(H, "bar0", case.seed, symbolic_mesh=False)
    mesh = dev1.mesh
    em = mesh.edge_mesh
    ns, ne = len(mesh.sites), len(em.edges)
    xi = float(dev1.layer.coherence_length)
    alpha = H.real("alpha", lo=0.0, hi=1.0, lo_open=True)
    beta = H.real("beta", lo=0.0, hi=1.0, lo_open=True)
    lams = [H.real("lambda1", lo=1.0, hi=4.0), H.real("lambda2", lo=1.0, hi=4.0)]
    d = H.real("thickness", lo=0.05, hi=0.5)
    q = H.reals("q", ne, lo=-3.0, hi=3.0)
    Aprev = H.reals2("Ap", ne, 2, lo=-2.0, hi=2.0)
    Js = site_average(H, mesh, q)
    dev = dev1
    for k, lam in enumerate(lams):
        if k:
            dev = dev1.copy(with_mesh=True)
            H.prove("the copy shares the Mesh object of the original (what makes the scenario possible)", dev.mesh is mesh)
        dev.layer.london_lambda = lam
        dev.layer.thickness = d
        opts = S.make_options(dt_init=0.01, dt_max=0.01, adaptive=False, include_screening=True, screening_step_size=alpha, screening_step_drag=beta)
        solver = S.make_solver(H, dev, opts, validate=False)
        A_new, err = solver.get_induced_vector_potential(q, [Aprev], [0.0])
        Lam = lam * lam / d
        # (1) the weights this solver holds are those of its own device: a_j xi^2 / (pi Lambda_k) up to the rounding
        #     of the physical constants; (2) its iterate is the Polyak step with exactly those weights
        for j in range(ns):
            wj = float(mesh.areas[j]) * xi * xi / (math.pi * Lam)
            dev_ = abs(K.at(solver.areas, j) - wj)
            H.prove(f"solver {k + 1}: screening weight of site {j} = a_j xi^2 / (pi Lambda_{k + 1}) (to 1e-9)", dev_ <= 1e-9 * wj if H.mode == "sym" else bool(dev_ <= 1e-9 * wj))
        for i in range(ne):
            for c in range(2):
                t = 0.0
                for j in range(ns):
                    dx = xi * float(em.centers[i, 0]) - xi * float(mesh.sites[j, 0])
                    dy = xi * float(em.centers[i, 1]) - xi * float(mesh.sites[j, 1])
                    t = t + Js[j][c] * K.at(solver.areas, j) / math.sqrt(dx * dx + dy * dy)
                want = K.at(Aprev, i, c) + alpha * (t - K.at(Aprev, i, c))
                H.prove_eq(f"solver {k + 1}: new iterate [{i},{c}] = A_prev + alpha (sum_j J_j w_j / r_ij - A_prev) with its own weights w", K.at(A_new, i, c), want)


def _loop_solver(H, case, screening, max_iter):
    dev = S.symbolic_device(H, "bar0", case.seed, symbolic_mesh=False)
    ne = len(dev.mesh.edge_mesh.edges)
    ns = len(dev.mesh.sites)
    tol = H.real("tol", lo=1e-4, hi=1e-2)
    opts = S.make_options(dt_init=0.01, dt_max=0.01, adaptive=False, include_screening=screening, max_iterations_per_step=max_iter, screening_tolerance=tol)
    solver = S.make_solver(H, dev, opts, validate=False)
    zed = H.array([0.0] * ne) if H.mode == "sym" else np.zeros(ne)
    mu0 = H.array([0.0] * ns) if H.mode == "sym" else np.zeros(ns)
    solver.adaptive_euler_step = lambda step, psi, abs_sq_psi, mu, epsilon, dt: (psi, abs_sq_psi, dt)
    solver.solve_for_observables = lambda p, dA_dt: (mu0, zed, zed)
    return dev, solver, tol, ns, ne, zed, mu0


def body_loop(H, case):
    dev, solver, tol, ns, ne, zed, mu0 = _loop_solver(H, case, True, case.max_iter)
    calls = []
    obs = []  # per iteration: the observables the (stubbed) Poisson stage returned
    eul = []  # per iteration: what the (stubbed) Euler stage returned

    def fake_euler(step, psi, abs_sq_psi, mu, epsilon, dt):
        k = len(eul)
        if H.mode == "sym":
            p = H.array([H.cplx(f"psi_it{k}_{i}", lo=-1.0, hi=1.0) for i in range(ns)])
        else:
            p = np.array([H.cplx(f"psi_it{k}_{i}", lo=-1.0, hi=1.0) for i in range(ns)], dtype=complex)
        eul.append(p)
        return p, abs_sq_psi, dt

    def fake_observables(p, dA_dt):
        k = len(obs)
        vals = [H.real(f"mu_it{k}_{i}", lo=-1.0, hi=1.0) for i in range(ns)]
        m = H.array(vals) if H.mode == "sym" else np.array(vals)
        js = [H.real(f"js_it{k}_{i}", lo=-1.0, hi=1.0) for i in range(ne)]
        jn = [H.real(f"jn_it{k}_{i}", lo=-1.0, hi=1.0) for i in range(ne)]
        js, jn = (H.array(js), H.array(jn)) if H.mode == "sym" else (np.array(js), np.array(jn))
        obs.append((p, m, js, jn))
        return m, js, jn

    solver.adaptive_euler_step = fake_euler
    solver.solve_for_observables = fake_observables
    seen_J = []

    def fake_induced(current_density, A_induced_vals, velocity):
        seen_J.append(current_density)
        k = len(calls)
        if k > case.max_iter + 2:
            from symx.core import UnwindBound

            raise UnwindBound("more Polyak iterations than max_iterations_per_step + 2")
        A = H.reals2(f"Ai{k}_", ne, 2, lo=-1.0, hi=1.0)
        err = H.real(f"err{k}", lo=0.0, hi=1.0)
        A_induced_vals.append(A)
        calls.append((A, err))
        return A, err

    solver.get_induced_vector_potential = fake_induced
    rs = S.running_state(H, solver)
    psi = H.array([1.0] * ns) if H.mode == "sym" else np.ones(ns, dtype=complex)
    A_in = H.reals2("Ain_", ne, 2, lo=-1.0, hi=1.0)
    raised = False
    try:
        res = solver.update({"step": 1, "time": 0.0, "dt": 0.01}, rs, 0.01, psi=psi, mu=mu0, supercurrent=zed, normal_current=zed,
                            induced_vector_potential=A_in)
    except RuntimeError as e:
        if "Screening calculation failed to converge" not in str(e):
            raise
        raised = True
    n = len(calls)
    H.prove("at least one Polyak iteration is made", n >= 1)
    if raised:
        H.prove("non-convergence raises only after more than max_iterations_per_step iterations", n > case.max_iter)
        for k, (A, err) in enumerate(calls):
            H.prove(f"raised: iteration {k} had not converged", err >= tol)
        return
    H.prove("an accepted step ends with a converged iteration: last error < tolerance", calls[-1][1] < tol)
    for k, (A, err) in enumerate(calls[:-1]):
        H.prove(f"iteration {k} (not the last) had not converged", err >= tol)
    H.prove("number of iterations <= max_iterations_per_step + 1", n <= case.max_iter + 1)
    for i in range(ne):
        for c in range(2):
            H.prove_eq(f"returned A_induced is the last iterate [{i},{c}]", K.at(res.A_induced, i, c), K.at(calls[-1][0], i, c))
    H.prove_eq("recorded screening_iterations = number of iterations", K.at(rs.values["screening_iterations"], 0, rs.step), n)
    # the stored state is the one of the converged iteration: the stored currents are those the stored
    # potential was computed from, psi / mu belong to the same iteration
    H.prove("one Euler stage and one Poisson stage per Polyak iteration", len(eul) == n and len(obs) == n)
    if len(eul) == n and len(obs) == n:
        p_last, m_last, js_last, jn_last = obs[-1]
        for i in range(ne):
            H.prove_eq(f"stored supercurrent [{i}] is the one of the converged iteration", K.at(res.supercurrent, i), K.at(js_last, i))
            H.prove_eq(f"stored normal current [{i}] is the one of the converged iteration", K.at(res.normal_current, i), K.at(jn_last, i))
            H.prove_eq(f"the stored potential was computed from the stored sheet current [{i}]", K.at(seen_J[-1], i), K.at(js_last, i) + K.at(jn_last, i))
        for i in range(ns):
            H.prove_eq(f"stored mu [{i}] is the one of the converged iteration", K.at(res.mu, i), K.at(m_last, i))
            H.prove_eq(f"stored psi [{i}] is the one of the converged iteration (re)", K.re(K.at(res.psi, i)), K.re(K.at(eul[-1], i)))
            H.prove_eq(f"stored psi [{i}] is the one of the converged iteration (im)", K.im(K.at(res.psi, i)), K.im(K.at(eul[-1], i)))
            H.prove_eq(f"the Poisson stage of the converged iteration saw its psi [{i}] (re)", K.re(K.at(p_last, i)), K.re(K.at(eul[-1], i)))


def body_off(H, case):
    dev, solver, tol, ns, ne, zed, mu0 = _loop_solver(H, case, False, 2)

    def boom(*a, **k):
        raise AssertionError("get_induced_vector_potential called with screening disabled")

    solver.get_induced_vector_potential = boom
    rs = S.running_state(H, solver)
    psi = H.array([1.0] * ns) if H.mode == "sym" else np.ones(ns, dtype=complex)
    A0 = S.zeros2(H, ne, 2)
    res = solver.update({"step": 1, "time": 0.0, "dt": 0.01}, rs, 0.01, psi=psi, mu=mu0, supercurrent=zed, normal_current=zed,
                        induced_vector_potential=A0)
    H.prove("screening off: induced potential returned unchanged", res.A_induced is A0)
    for i in range(ne):
        for c in range(2):
            H.prove_eq(f"screening off: A_induced = 0 [{i},{c}]", K.at(res.A_induced, i, c), 0.0)
    H.prove("screening off: no screening record", "screening_iterations" not in rs.values)
    H.prove("screening off: no kernel buffer allocated", solver.new_A_induced is None)
