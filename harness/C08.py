"""C08 - Results do not depend on the unit system used to state the problem.

The same physical device, field and currents are stated in all 27 unit systems (um/nm/mm x
mT/uT/T x uA/nA/mA); for each, the real `TDGLSolver.__init__` (through the real pint registry,
`Device.Bc2/A0/K0`, `ConstantField` / `uniform_Bz_vector_potential`) is executed with symbolic
penetration depth, thickness, field and terminal currents and compared with the reference system
(um, mT, uA): dimensionless vector potential on every edge, terminal current densities,
screening weights and the physical current-density factor agree to 1e-9 relative.  Flux
identity: the gauge phase accumulated around every mesh triangle equals 2 pi B Area / Phi_0."""
import numpy as np

from symx import engine, meshes
from symx.engine import Case

from . import common as K
from . import solver_setup as S

ID = "C08"
ENCODED = [
    "tdgl.solver.solver:TDGLSolver.__init__",
    "tdgl.solver.solver:TDGLSolver.update_mu_boundary",
    "tdgl.solver.solver:TDGLSolver.update_applied_vector_potential",
    "tdgl.device.device:Device.Bc2",
    "tdgl.device.device:Device.A0",
    "tdgl.device.device:Device.K0",
    "tdgl.device.device:Device.copy",
    "tdgl.sources.constant:constant_field_vector_potential",
    "tdgl.em:uniform_Bz_vector_potential",
]
BOUNDS = {
    "quick": dict(unit_systems="9 of 27 (every unit in some system, incl. all prefix mismatches of current vs length)", device="tee3 (shared dimensionless mesh)"),
    "thorough": dict(unit_systems="all 27", device="tee3 and bar2 (shared dimensionless meshes)"),
}
ASSUMPTIONS = [
    "coordinates and coherence length are concrete (stated per unit system); london_lambda, thickness, field and terminal currents are symbolic reals (physical values), converted to each unit system by exact decimal prefixes",
    "the dimensionless mesh is shared between unit systems (that Triangle produces the same topology for rescaled coordinates is outside the claim)",
    "equal dimensionless inputs give equal solutions because the solver is a function of those inputs only (C09)",
    "agreement to 1e-9 relative (pint's prefix factors are binary floats)",
]
OUTSIDE = ["meshing of rescaled coordinates (Triangle)", "rounding beyond 1e-9", "whole-run comparison (follows from equal dimensionless inputs)"]
TV_SAMPLES = {"quick": 1, "thorough": 1}
FEASIBILITY = "all"  # lambda^2/d makes J_scale symbolic: branch conditions are non-linear but easy
LEN = {"um": 1.0, "nm": 1e3, "mm": 1e-3}  # value in unit = value in um * factor
FLD = {"mT": 1.0, "uT": 1e3, "T": 1e-3}
CUR = {"uA": 1.0, "nA": 1e3, "mA": 1e-3}
XI_UM = 0.5


def patch_spec(case):
    spec = S.patch_spec(extra_modules=["tdgl.sources.constant", "tdgl.em"])
    import tdgl.solver.solver as sol

    real_validate = sol.validate_terminal_currents
    # (the constructor samples the currents 100 times; validation is the subject of C01 / C19)
    spec["tdgl.solver.solver"]["validate_terminal_currents"] = lambda c, ti, o, num_evals=100: real_validate(c, ti, o, num_evals=1)
    return spec


def systems(tier):
    allsys = [(l, f, c) for l in LEN for f in FLD for c in CUR]
    if tier == "thorough":
        return allsys
    return [("um", "mT", "uA"), ("nm", "uT", "nA"), ("mm", "T", "mA"), ("um", "uT", "mA"), ("um", "T", "nA"), ("nm", "mT", "mA"), ("nm", "T", "uA"), ("mm", "mT", "nA"), ("mm", "uT", "uA")]


def cases(tier, seed):
    devs = ["tee3"] if tier == "quick" else ["tee3", "bar2"]
    out = []
    for d in devs:
        meshes.get_device(d, seed)
        for k, sysm in enumerate(s for s in systems(tier) if s != ("um", "mT", "uA")):
            scr = bool(k % 2) if tier == "quick" else None
            for sc in ([scr] if scr is not None else [False, True]):
                out.append(Case(f"units:{d}:{'/'.join(sysm)}:screening={int(sc)}", dev=d, screening=sc, systems=[("um", "mT", "uA"), sysm], seed=seed, flux=(k == 0)))
    return out


def make_device(base, lu):
    """the same physical device stated in length unit `lu`, sharing the dimensionless mesh"""
    import copy

    import tdgl

    f = LEN[lu]
    xi = XI_UM * f

    def scaled(poly):
        return tdgl.Polygon(poly.name, points=np.asarray(poly.points) * XI_UM * f)

    layer = tdgl.Layer(coherence_length=xi, london_lambda=1.0, thickness=1.0, gamma=1.0)
    dev = tdgl.Device("d", layer=layer, film=scaled(base.film), holes=[scaled(h) for h in base.holes], terminals=[scaled(t) for t in base.terminals], length_units=lu)
    dev.mesh = copy.deepcopy(base.mesh)
    return dev


def close(H, name, a, b, rel=1e-9):
    if H.mode == "sym":
        H.prove(name, abs(a - b) <= rel * abs(b))
    else:
        H.prove(name, abs(a - b) <= rel * abs(b) + 1e-300)


def body(H, case):
    base = meshes.get_device(case.dev, case.seed)  # built with xi = 1 (coordinates are dimensionless)
    lam_um = H.real("lambda_um", lo=0.05, hi=5.0)
    d_um = H.real("d_um", lo=0.01, hi=1.0)
    B_mT = H.real("B_mT", lo=-5.0, hi=5.0)
    names = [t.name for t in base.terminals]
    I_uA = [H.real(f"I_{nm}_uA", lo=0.5, hi=20.0) for nm in names[:-1]]  # non-zero: every terminal carries current
    I_uA.append(-K.total(I_uA))
    results = {}
    for (lu, fu, cu) in case.systems:
        dev = make_device(base, lu)
        dev.layer.london_lambda = lam_um * LEN[lu]
        dev.layer.thickness = d_um * LEN[lu]
        opts = S.make_options(field_units=fu, current_units=cu, include_screening=case.screening)
        currents = {nm: i * CUR[cu] for nm, i in zip(names, I_uA)}
        solver = S.make_solver(H, dev, opts, A=B_mT * FLD[fu], currents=currents, validate=False)
        solver.update_mu_boundary(0.0)
        K0 = dev.K0.to("uA / um").magnitude  # physical current-density scale in fixed units
        # a copy of the device (what a Solution stores, what scale / rotate / translate start from) is the
        # same physical device: same length unit, same physical scales
        cp = dev.copy()
        H.prove(f"{lu}/{fu}/{cu}: a copy of the device keeps its length unit", cp.length_units == dev.length_units)
        close(H, f"{lu}/{fu}/{cu}: a copy of the device has the same K0", cp.K0.to("uA / um").magnitude, K0)
        close(H, f"{lu}/{fu}/{cu}: a copy of the device has the same Bc2", cp.Bc2.to("mT").magnitude, dev.Bc2.to("mT").magnitude)
        # the screening weights carry one power of the length unit (they are divided by distances
        # in the same unit inside the kernel): compare them in units of xi
        w = None if solver.areas is None else solver.areas / (XI_UM * LEN[lu])
        # the same field, ramped in time (the solver re-evaluates and re-scales it at every step)
        import tdgl
        from tdgl.sources.constant import constant_field_vector_potential

        def ramped(x, y, z, *, t, _B=B_mT * FLD[fu], _fu=fu, _lu=lu):
            return constant_field_vector_potential(x, y, z, Bz=_B, field_units=_fu, length_units=_lu) * (1.0 + t)

        solver_t = S.make_solver(H, dev, S.make_options(field_units=fu, current_units=cu, include_screening=case.screening),
                                 A=tdgl.Parameter(ramped, time_dependent=True), currents=currents, validate=False)
        t_later = H.real("t_later", lo=0.0, hi=3.0)
        results[(lu, fu, cu)] = dict(A=solver.current_A_applied, mub=solver.mu_boundary, areas=w, K0=K0, solver=solver, dev=dev,
                                     A_t0=solver_t.current_A_applied, A_t=solver_t.update_applied_vector_potential(t_later), t=t_later)
    ref = results[("um", "mT", "uA")]
    ne = len(base.mesh.edge_mesh.edges)
    for key, r in results.items():
        if key == ("um", "mT", "uA"):
            continue
        tag = "/".join(key)
        for e in range(ne):
            for c in range(2):
                close(H, f"{tag}: dimensionless A on edge {e} component {c}", K.at(r["A"], e, c), K.at(ref["A"], e, c))
        for e in range(ne):
            for c in range(2):
                close(H, f"{tag}: time-dependent drive, dimensionless A at a later time on edge {e} component {c}", K.at(r["A_t"], e, c), K.at(ref["A_t"], e, c))
        for k in range(len(K.elems(ref["mub"]))):
            close(H, f"{tag}: terminal current density on boundary edge {k}", K.at(r["mub"], k), K.at(ref["mub"], k))
        close(H, f"{tag}: physical current-density factor K0", r["K0"], ref["K0"])
        if case.screening:
            for i in range(len(base.mesh.sites)):
                close(H, f"{tag}: screening weight of cell {i}", K.at(r["areas"], i), K.at(ref["areas"], i))
    # in every unit system: the ramped drive at time t is (1 + t) x the static one, at construction and later
    for key, r in results.items():
        tag = "/".join(key)
        for e in range(ne):
            for c in range(2):
                close(H, f"{tag}: ramped drive at construction = static drive on edge {e} component {c}", K.at(r["A_t0"], e, c), K.at(r["A"], e, c))
                close(H, f"{tag}: ramped drive at time t = (1 + t) x static drive on edge {e} component {c}", K.at(r["A_t"], e, c), (1.0 + r["t"]) * K.at(r["A"], e, c))
    if not case.flux:
        return
    # ---- flux identity on the reference system -------------------------------------------------------
    mesh = base.mesh
    A = ref["A"]
    em = mesh.edge_mesh
    index = {(int(a), int(b)): e for e, (a, b) in enumerate(em.edges)}
    phi0_mT_um2 = 2.067833848461929  # Phi_0 = h/2e in mT um^2
    for t, tri in enumerate(mesh.elements):
        phase = 0.0
        for a, b in ((tri[0], tri[1]), (tri[1], tri[2]), (tri[2], tri[0])):
            a, b = int(a), int(b)
            e = index[(min(a, b), max(a, b))]
            sgn = 1.0 if (a, b) == (int(em.edges[e][0]), int(em.edges[e][1])) else -1.0
            phase = phase + sgn * (K.at(A, e, 0) * float(em.directions[e, 0]) + K.at(A, e, 1) * float(em.directions[e, 1]))
        p = mesh.sites[tri] * XI_UM
        area_um2 = 0.5 * ((p[1, 0] - p[0, 0]) * (p[2, 1] - p[0, 1]) - (p[1, 1] - p[0, 1]) * (p[2, 0] - p[0, 0]))
        want = 2 * np.pi * B_mT * float(area_um2) / phi0_mT_um2
        if H.mode == "sym":
            H.prove(f"gauge phase around triangle {t} = 2 pi B Area / Phi_0", abs(phase - want) <= 1e-8 * abs(want))
        else:
            H.note("flux", t, phase, want); H.prove(f"gauge phase around triangle {t} = 2 pi B Area / Phi_0", abs(phase - want) <= 1e-8 * abs(want) + 1e-300)
